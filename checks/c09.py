"""C09 -- AXI port: protocol-correct responses and memory semantics."""
from functools import partial
import re
from migen import *
from litedram.common import LiteDRAMNativePort
from vlib import bmc, monitors
from checks.c12 import _bad_adder, Marker

FILES = ["litedram/frontend/axi.py"]
LEVEL = "model_checking"
TECHNIQUE = ("bounded model checking (z3 QF_BV) of the elaborated real LiteDRAMAXI2Native (LiteX AXIBurst2Beat, buffers, ID FIFOs, "
             "arbiter, RMW FSM lowered) between a free AXI4 master (handshake stability + legal bursts only) and a nondeterministic "
             "in-order native-port stub; independent AXI4 beat-address oracle; replay on migen.sim")
EXPLANATION = ("All five AXI channels and the native side are free solver variables per cycle.  The monitor keeps the accepted AW/AR "
               "bursts and an independently written AXI4 beat-address function: every native write/read command must carry the address "
               "of the next beat of the oldest unfinished AW/AR burst (in read-modify-write mode a native read may instead target the "
               "current write beat), write data beats reach the native port in order with the master's strobes, every AW gets exactly "
               "one B with its ID and only after its last data beat was taken by the memory, every AR gets len+1 R beats with its ID "
               "and LAST exactly on the last one, and read data offered by the memory is never dropped.")

QD = 3
MAXLEN = 3


def beat_addr(addr, ln, size_bytes_log2, burst, j, aw):
    """independent AXI4 (IHI0022) beat address for beat j; size is a python int here"""
    nbytes = 1 << size_bytes_log2
    aligned = addr & (2**aw - nbytes)
    incr = Mux(j == 0, addr, aligned + j * nbytes)
    outs = {}
    # WRAP: len+1 in {2,4,8,16}; boundary = (len+1)*nbytes
    wrap_cases = {}
    res = Signal(aw)
    stmts = []
    wrap = Signal(aw)
    cases = {}
    for L in (1, 3):
        N = (L + 1) * nbytes
        cases[L] = wrap.eq((addr & (2**aw - N)) | ((addr + j * nbytes) & (N - 1)))
    cases["default"] = wrap.eq(addr)
    stmts.append(Case(ln, cases))
    stmts.append(Case(burst, {0: res.eq(addr), 1: res.eq(incr), 2: res.eq(wrap), "default": res.eq(addr)}))
    return res, stmts


class BurstQueue(Module):
    """accepted bursts of one address channel, head = oldest unfinished burst"""
    def __init__(self, ch, aw, idw, depth=QD, keep=("addr", "len", "burst", "id")):
        self.push = Signal()
        self.pop = Signal()
        self.level = Signal(max=depth + 2)
        fields = [f for f in [("addr", aw), ("len", 2), ("burst", 2), ("id", idw)] if f[0] in keep]
        regs = {n: [Signal(w) for _ in range(depth)] for n, w in fields}
        for i in range(depth):
            for n, w in fields:
                nxt = regs[n][i + 1] if i + 1 < depth else Constant(0, w)
                src = getattr(ch, n)
                self.sync += [
                    If(self.pop,
                        regs[n][i].eq(nxt),
                        If(self.push & (self.level == i + 1), regs[n][i].eq(src))
                    ).Elif(self.push & (self.level == i), regs[n][i].eq(src))
                ]
        self.sync += self.level.eq(self.level + self.push - self.pop)
        self.head = {n: regs[n][0] for n, w in fields}
        self.overflow = Signal()
        self.comb += self.overflow.eq(self.push & ~self.pop & (self.level == depth))
        self.empty = Signal()
        self.comb += self.empty.eq(self.level == 0)


class RWStub(Module):
    """in-order native stub with the real controller's pulse semantics; read data is free (memory contents arbitrary)"""
    def __init__(self, port, depth=3, min_latency=2, free_wready=False):
        self.inputs = {}
        self.bads = {}
        self.free_wready = free_wready
        stall = Signal(name_override="n_cmd_stall")
        go = Signal(name_override="n_resp_go")
        rdata = Signal(len(port.rdata.data), name_override="n_rdata")
        self.inputs.update({"n_cmd_stall": stall, "n_resp_go": go, "n_rdata": rdata})
        level = Signal(max=depth + 1)
        ages = [Signal(max=min_latency + 1) for _ in range(depth)]
        wes = [Signal() for _ in range(depth)]
        acc = Signal()
        resp = Signal()
        acc_any = Signal()
        self.comb += [port.cmd.ready.eq((level != depth) & ~stall), acc_any.eq(port.cmd.valid & port.cmd.ready),
                      acc.eq(acc_any & (~port.cmd.we if free_wready else 1)),
                      resp.eq((level != 0) & (ages[0] >= min_latency) & go)]
        inc = lambda x: Mux(x >= min_latency, x, x + 1)
        for i in range(depth):
            nxt = ages[i + 1] if i + 1 < depth else Constant(0, 1)
            nwe = wes[i + 1] if i + 1 < depth else Constant(0, 1)
            self.sync += [If(resp, ages[i].eq(inc(nxt)), wes[i].eq(nwe), If(acc & (level == i + 1), ages[i].eq(1), wes[i].eq(port.cmd.we))
                             ).Else(ages[i].eq(inc(ages[i])), If(acc & (level == i), ages[i].eq(1), wes[i].eq(port.cmd.we)))]
        self.sync += level.eq(level + acc - resp)
        self.acc, self.level = acc_any, level
        self.resp_w = Signal()
        self.resp_r = Signal()
        bad = _bad_adder(self, self.bads)
        if free_wready:
            # the native side may pulse wdata.ready at ANY time (delayed or unrelated pulses, which the bridge says it tolerates):
            # a write-data beat is handed to the memory when valid & ready; only reads are queued for in-order responses
            wfree = Signal(name_override="n_wdata_ready")
            self.inputs["n_wdata_ready"] = wfree
            self.comb += [self.resp_w.eq(port.wdata.valid & wfree), self.resp_r.eq(resp), port.wdata.ready.eq(wfree),
                          port.rdata.valid.eq(self.resp_r), port.rdata.data.eq(rdata)]
            owed = Signal(4)
            self.sync += owed.eq(owed + (acc_any & port.cmd.we) - self.resp_w)
            bad("write_data_beat_handed_over_without_an_accepted_write_command", self.resp_w & (owed == 0))
            # the real controller never strobes write data in the cycle it accepts the command (write latency >= 1)
            self.same_cycle_ok = Signal()
            self.comb += self.same_cycle_ok.eq(~(wfree & acc_any & port.cmd.we))
        else:
            self.comb += [self.resp_w.eq(resp & wes[0]), self.resp_r.eq(resp & ~wes[0]),
                          port.wdata.ready.eq(self.resp_w), port.rdata.valid.eq(self.resp_r), port.rdata.data.eq(rdata)]
            bad("memory_takes_write_data_but_bridge_offers_none", self.resp_w & ~port.wdata.valid)
        bad("memory_returns_read_data_but_bridge_not_ready_word_lost", self.resp_r & ~port.rdata.ready)
        # (the bridge re-arbitrates its native command between the read and write paths before it is accepted; the real crossbar
        #  tolerates that, and it is not part of this property)


def axi_bench(name, rmw=False, base=0, wdepth=4, rdepth=4, dw=32, aw=8, idw=2, sizes=(2,), qdepth=QD, free_wready=False):
    from litedram.frontend.axi import LiteDRAMAXIPort, LiteDRAMAXI2Native
    ashift = log2_int(dw // 8)
    axi = LiteDRAMAXIPort(data_width=dw, address_width=aw, id_width=idw)
    port = LiteDRAMNativePort("both", aw - ashift, dw)

    class Top(Module):
        pass
    top = Top()
    top.submodules.dut = LiteDRAMAXI2Native(axi, port, w_buffer_depth=wdepth, r_buffer_depth=rdepth, base_address=base,
                                            with_read_modify_write=rmw)
    top.submodules.stub = stub = RWStub(port, free_wready=free_wready)
    _stub_assumes = {"no_write_data_strobe_in_the_cycle_its_command_is_accepted": stub.same_cycle_ok} if free_wready else {}
    inputs = dict(stub.inputs)
    for ch, names in (("aw", ["valid", "addr", "burst", "len", "size", "id"]), ("ar", ["valid", "addr", "burst", "len", "size", "id"]),
                      ("w", ["valid", "data", "strb", "last"]), ("b", ["ready"]), ("r", ["ready"])):
        for n in names:
            inputs["%s_%s" % (ch, n)] = getattr(getattr(axi, ch), n)
    assumes = dict(_stub_assumes)
    bads = dict(stub.bads)
    bad = _bad_adder(top, bads)

    def asm(n, e):
        s = Signal(name_override="asm_" + n)
        top.comb += s.eq(e)
        assumes[n] = s
    # master contract -------------------------------------------------------------------------------
    for chn in ("aw", "ar"):
        ch = getattr(axi, chn)
        c = monitors.StreamContract(ch.valid, ch.ready, [ch.addr, ch.burst, ch.len, ch.size, ch.id])
        top.submodules += c
        asm("%s_stable_until_ready" % chn, c.ok)
        size_ok = monitors.any_([ch.size == s for s in sizes])
        legal = size_ok & (ch.len <= MAXLEN) & (ch.burst != 3) & \
            ((ch.burst != 2) | (((ch.len == 1) | (ch.len == 3)) & ((ch.addr & ((1 << max(sizes)) - 1)) == 0))) & \
            (ch.addr >= base) & (ch.addr + ((ch.len + 1) << max(sizes)) <= 2**aw)
        # aligned start for the size and no 4KB-style overflow of the address space; INCR stays inside the address space
        asm("%s_legal_burst" % chn, ~ch.valid | (legal & ((ch.addr & ((1 << min(sizes)) - 1)) == 0)))
    cw = monitors.StreamContract(axi.w.valid, axi.w.ready, [axi.w.data, axi.w.strb, axi.w.last])
    top.submodules += cw
    asm("w_stable_until_ready", cw.ok)
    aw_hs = Signal()
    ar_hs = Signal()
    w_hs = Signal()
    b_hs = Signal()
    r_hs = Signal()
    top.comb += [aw_hs.eq(axi.aw.valid & axi.aw.ready), ar_hs.eq(axi.ar.valid & axi.ar.ready), w_hs.eq(axi.w.valid & axi.w.ready),
                 b_hs.eq(axi.b.valid & axi.b.ready), r_hs.eq(axi.r.valid & axi.r.ready)]
    # W beats follow their AW: queue of accepted AW for the W channel
    qw = BurstQueue(axi.aw, aw, idw, depth=qdepth, keep=("len",))                  # for W beats (popped at wlast handshake)
    qc = BurstQueue(axi.aw, aw, idw, depth=qdepth, keep=("addr", "len", "burst"))  # for native write commands
    qb = BurstQueue(axi.aw, aw, idw, depth=qdepth, keep=("len", "id"))             # for B responses
    qr = BurstQueue(axi.ar, aw, idw, depth=qdepth, keep=("addr", "len", "burst"))  # for native read commands
    qd = BurstQueue(axi.ar, aw, idw, depth=qdepth, keep=("len", "id"))             # for R beats
    top.submodules += qw, qc, qb, qr, qd
    wbeat = Signal(3)
    top.sync += If(w_hs, If(axi.w.last, wbeat.eq(0)).Else(wbeat.eq(wbeat + 1)))
    top.comb += [qw.push.eq(aw_hs), qw.pop.eq(w_hs & axi.w.last)]
    asm("w_data_only_after_its_aw_and_last_on_the_final_beat",
        ~axi.w.valid | (~qw.empty & (axi.w.last == (wbeat == qw.head["len"]))))
    asm("outstanding_bursts_bounded", ~((axi.aw.valid & (qb.level >= qdepth - 1)) | (axi.ar.valid & (qd.level >= qdepth - 1))))
    # native commands vs beat-address oracle -------------------------------------------------------------
    nacc_w = Signal()
    nacc_r = Signal()
    top.comb += [nacc_w.eq(stub.acc & port.cmd.we), nacc_r.eq(stub.acc & ~port.cmd.we)]
    cj = Signal(3)
    rj = Signal(3)
    size = max(sizes)
    exp_w, st_w = beat_addr(qc.head["addr"], qc.head["len"], size, qc.head["burst"], cj, aw)
    exp_r, st_r = beat_addr(qr.head["addr"], qr.head["len"], size, qr.head["burst"], rj, aw)
    top.comb += st_w + st_r
    top.comb += [qc.push.eq(aw_hs), qc.pop.eq(nacc_w & (cj == qc.head["len"])),
                 qr.push.eq(ar_hs)]
    top.sync += If(nacc_w, If(cj == qc.head["len"], cj.eq(0)).Else(cj.eq(cj + 1)))
    nat_w = ((exp_w - base) >> ashift)[:aw - ashift]
    nat_r = ((exp_r - base) >> ashift)[:aw - ashift]
    # the AW/AR handshake of the LAST beat coincides with the native command; earlier beats are issued while the burst is
    # still on the buffered address channel: the head seen by the oracle is the burst being converted, which may not have been
    # "accepted" on the AXI channel of the DUT-internal buffer yet -> the monitor queues are pushed at the AXI handshake, which
    # always precedes conversion (aw_buffer/ar_buffer are in front of the converters)
    bad("native_write_command_without_pending_aw_beat", nacc_w & qc.empty)
    bad("native_write_command_address_is_not_the_next_aw_beat", nacc_w & ~qc.empty & (port.cmd.addr != nat_w))
    is_ar_read = Signal()
    if rmw:
        # a native read of word X is attributed to the AR stream when X is the next AR beat; to keep the attribution unambiguous
        # the master never has the next AR beat and the current AW beat on the same word (restriction of the environment)
        asm("next_ar_beat_and_current_aw_beat_on_different_words", qr.empty | qc.empty | (nat_r != nat_w))
        top.comb += is_ar_read.eq(~qr.empty & (port.cmd.addr == nat_r) & ~(~qc.empty & (port.cmd.addr == nat_w) & 0))
        # a native read that is not the next AR beat must be the read of a read-modify-write on the current write beat
        rmw_read = nacc_r & (qr.empty | (port.cmd.addr != nat_r))
        bad("native_read_command_is_neither_next_ar_beat_nor_rmw_of_current_write_beat", rmw_read & (qc.empty | (port.cmd.addr != nat_w)))
        ar_read = nacc_r & ~rmw_read
    else:
        bad("native_read_command_without_pending_ar_beat", nacc_r & qr.empty)
        bad("native_read_command_address_is_not_the_next_ar_beat", nacc_r & ~qr.empty & (port.cmd.addr != nat_r))
        ar_read = nacc_r
    top.comb += qr.pop.eq(ar_read & (rj == qr.head["len"]))
    top.sync += If(ar_read, If(rj == qr.head["len"], rj.eq(0)).Else(rj.eq(rj + 1)))
    # write data reach the native port in order with the master's strobes (tagged beat) -----------------------
    if not rmw:
        mw = Marker(w_hs, stub.resp_w, depth_bits=6)
        top.submodules += mw
        inputs["mark_w"] = mw.mark
        pm = Signal()
        pv = Signal()
        top.sync += [pm.eq(mw.mark), pv.eq(axi.w.valid & ~axi.w.ready)]
        asm("mark_w_held_with_beat", ~pv | (mw.mark == pm))
        asm("w_tag_bit_marks_the_marked_beat", ~axi.w.valid | (axi.w.data[0] == (mw.mark & ~mw.marked)))
        mstrb = Signal(dw // 8)
        top.sync += If(mw.mark_now, mstrb.eq(axi.w.strb))
        bad("native_write_data_beat_without_axi_beat", mw.underflow)
        bad("marked_write_beat_not_at_its_position_or_wrong_strobes", mw.mine & ((port.wdata.data[0] != 1) | (port.wdata.we != mstrb)))
        bad("marked_write_beat_data_at_another_position", stub.resp_w & ~mw.mine & (port.wdata.data[0] == 1))
    # read data reach the R channel in order (tagged native read beat) --------------------------------------------
    if not rmw:
        mr = Marker(stub.resp_r, r_hs, depth_bits=6)
        top.submodules += mr
        inputs["mark_r"] = mr.mark
        rd_in = stub.inputs["n_rdata"]
        asm("r_tag_bit_marks_the_marked_native_read_beat", ~stub.resp_r | (rd_in[0] == (mr.mark & ~mr.marked)))
        bad("r_beat_without_native_read_data", mr.underflow)
        bad("marked_read_data_not_at_its_position_in_the_r_stream", mr.mine & (axi.r.data[0] != 1))
        bad("marked_read_data_appears_at_another_r_position", r_hs & ~mr.mine & (axi.r.data[0] == 1))
    # B responses -------------------------------------------------------------------------------------------
    top.comb += [qb.push.eq(aw_hs), qb.pop.eq(b_hs)]
    wtaken = Signal(6)
    top.sync += If(stub.resp_w, wtaken.eq(wtaken + 1))
    # beats that must have been taken before the head burst of qb may be acknowledged
    need = Signal(6)
    done_b = Signal(6)          # beats of bursts already acknowledged
    top.sync += If(b_hs, done_b.eq(done_b + qb.head["len"] + 1))
    top.comb += need.eq(done_b + qb.head["len"] + 1)
    bad("write_response_without_pending_aw", axi.b.valid & qb.empty)
    bad("write_response_id_differs_from_its_aw", axi.b.valid & ~qb.empty & (axi.b.id != qb.head["id"]))
    if not rmw:
        bad("write_response_before_last_data_beat_was_taken_by_memory", axi.b.valid & ~qb.empty & (wtaken + stub.resp_w < need))
    # R beats -----------------------------------------------------------------------------------------------
    rb = Signal(3)
    top.comb += [qd.push.eq(ar_hs), qd.pop.eq(r_hs & (rb == qd.head["len"]))]
    top.sync += If(r_hs, If(rb == qd.head["len"], rb.eq(0)).Else(rb.eq(rb + 1)))
    bad("read_beat_without_pending_ar", axi.r.valid & qd.empty)
    bad("read_beat_id_differs_from_its_ar", axi.r.valid & ~qd.empty & (axi.r.id != qd.head["id"]))
    bad("read_last_flag_not_exactly_on_the_final_beat", axi.r.valid & ~qd.empty & (axi.r.last != (rb == qd.head["len"])))
    bad("monitor_queue_overflow", qw.overflow | qc.overflow | qb.overflow | qr.overflow | qd.overflow)
    covers = {}

    def cov(n, e):
        s = Signal()
        top.comb += s.eq(e)
        covers[n] = s
    cov("write_response_for_a_4_beat_burst", b_hs & (qb.head["len"] == 3))
    cov("last_read_beat_of_a_multi_beat_burst", r_hs & axi.r.last & (qd.head["len"] >= 1))
    b = bmc.Bench(name, top, inputs, assumes=assumes, bads=bads, covers=covers,
                  info=dict(rmw=rmw, base=base, wdepth=wdepth, rdepth=rdepth, dw=dw, aw=aw, sizes=list(sizes)))
    b.watch = {"aw_hs": aw_hs, "w_hs": w_hs, "b_hs": b_hs, "ar_hs": ar_hs, "r_hs": r_hs, "n_v": port.cmd.valid, "n_r": port.cmd.ready,
               "n_we": port.cmd.we, "n_a": port.cmd.addr, "rid": axi.r.id, "rlast": axi.r.last, "bid": axi.b.id}
    return b


def axi_bytes_bench(name, rmw=False, base=0, wdepth=2, rdepth=2, dw=32, aw=7, idw=1, full_strobes=False):
    """memory semantics at byte level: real bridge between a free AXI master (single-beat full-width accesses) and an in-order
    memory stub that really stores ONE byte (symbolic word address and lane).  A read whose AR is accepted while no write to the
    watched word is outstanding (AW accepted, B not yet received) and during which no such write is accepted must return the byte
    most recently written under its strobe -- read-after-B visibility, strobes respected, RMW merge leaves other bytes intact"""
    from litedram.frontend.axi import LiteDRAMAXIPort, LiteDRAMAXI2Native
    from vlib import memstub
    ashift = log2_int(dw // 8)
    nb = dw // 8
    axi = LiteDRAMAXIPort(data_width=dw, address_width=aw, id_width=idw)
    port = LiteDRAMNativePort("both", aw - ashift, dw)

    class Top(Module):
        pass
    top = Top()
    top.submodules.dut = LiteDRAMAXI2Native(axi, port, w_buffer_depth=wdepth, r_buffer_depth=rdepth, base_address=base,
                                            with_read_modify_write=rmw)
    WA = Signal(aw - ashift, name_override="WA")
    WL = Signal(max=nb, name_override="WL")
    mem = Signal(8, name_override="mem_byte")
    ref = Signal(8, name_override="ref_byte")
    top.submodules.stub = stub = memstub.NativeMemStub(port, WA, WL, mem, depth=3, name="n")
    inputs = dict(stub.inputs)
    for ch, names in (("aw", ["valid", "addr", "id"]), ("ar", ["valid", "addr", "id"]), ("w", ["valid", "data", "strb"]), ("b", ["ready"]),
                      ("r", ["ready"])):
        for n in names:
            inputs["%s_%s" % (ch, n)] = getattr(getattr(axi, ch), n)
    top.comb += [axi.aw.len.eq(0), axi.ar.len.eq(0), axi.aw.size.eq(ashift), axi.ar.size.eq(ashift), axi.aw.burst.eq(1), axi.ar.burst.eq(1),
                 axi.w.last.eq(1)]
    assumes = {}
    bads = {k: v for k, v in stub.bads.items() if k != "frontend_changes_or_drops_unaccepted_command"}
    bad = _bad_adder(top, bads)

    def asm(n, e):
        s_ = Signal(name_override="asm_" + n)
        top.comb += s_.eq(e)
        assumes[n] = s_
    for chn in ("aw", "ar"):
        ch = getattr(axi, chn)
        c = monitors.StreamContract(ch.valid, ch.ready, [ch.addr, ch.id])
        top.submodules += c
        asm("%s_stable_until_ready" % chn, c.ok)
        asm("%s_aligned_inside_window" % chn, ~ch.valid | ((ch.addr[:ashift] == 0) & (ch.addr >= base)))
    cw = monitors.StreamContract(axi.w.valid, axi.w.ready, [axi.w.data, axi.w.strb])
    top.submodules += cw
    asm("w_stable_until_ready", cw.ok)
    if full_strobes:
        asm("full_strobes", ~axi.w.valid | (axi.w.strb == 2**nb - 1))
    aw_hs, ar_hs, w_hs, b_hs, r_hs = Signal(), Signal(), Signal(), Signal(), Signal()
    top.comb += [aw_hs.eq(axi.aw.valid & axi.aw.ready), ar_hs.eq(axi.ar.valid & axi.ar.ready), w_hs.eq(axi.w.valid & axi.w.ready),
                 b_hs.eq(axi.b.valid & axi.b.ready), r_hs.eq(axi.r.valid & axi.r.ready)]

    def word_of(addr):
        return ((addr - base) >> ashift)[:aw - ashift]
    aw_hit = Signal()
    ar_hit = Signal()
    top.comb += [aw_hit.eq(word_of(axi.aw.addr) == WA), ar_hit.eq(word_of(axi.ar.addr) == WA)]
    QN = 2
    # writes: accepted AW whose W beat has not been sent yet (in order) / whose B has not been received yet
    wq_hit = [Signal() for _ in range(QN)]
    wq_lvl = Signal(max=QN + 1)         # AW accepted, W not yet accepted
    out_w = Signal(max=QN + 2)          # AW accepted, B not yet received
    out_w_hit = Signal(max=QN + 2)      # ... of which on the watched word
    bq_hit = [Signal() for _ in range(QN + 1)]
    for i in range(QN):
        nxt = wq_hit[i + 1] if i + 1 < QN else Constant(0, 1)
        top.sync += [If(w_hs, wq_hit[i].eq(nxt), If(aw_hs & (wq_lvl == i + 1), wq_hit[i].eq(aw_hit))
                        ).Elif(aw_hs & (wq_lvl == i), wq_hit[i].eq(aw_hit))]
    for i in range(QN + 1):
        nxt = bq_hit[i + 1] if i + 1 < QN + 1 else Constant(0, 1)
        top.sync += [If(b_hs, bq_hit[i].eq(nxt), If(aw_hs & (out_w == i + 1), bq_hit[i].eq(aw_hit))
                        ).Elif(aw_hs & (out_w == i), bq_hit[i].eq(aw_hit))]
    top.sync += [wq_lvl.eq(wq_lvl + aw_hs - w_hs), out_w.eq(out_w + aw_hs - b_hs),
                 out_w_hit.eq(out_w_hit + (aw_hs & aw_hit) - (b_hs & bq_hit[0]))]
    asm("w_beat_only_after_its_aw_was_accepted", ~axi.w.valid | (wq_lvl != 0))
    asm("outstanding_writes_bounded", ~axi.aw.valid | ((out_w < QN) & (wq_lvl < QN)))
    top.sync += If(w_hs & wq_hit[0] & memstub.bit_of(axi.w.strb, WL, nb), ref.eq(memstub.byte_of(axi.w.data, WL, nb)))
    wr_hit = Signal()
    top.comb += wr_hit.eq(w_hs & wq_hit[0] & memstub.bit_of(axi.w.strb, WL, nb))
    # reads: accepted AR whose R beat has not been delivered yet
    rq_chk = [Signal() for _ in range(QN)]
    rq_exp = [Signal(8) for _ in range(QN)]
    rq_lvl = Signal(max=QN + 1)
    clean = Signal()
    top.comb += clean.eq((out_w_hit == 0) & ~(aw_hs & aw_hit))
    kill = Signal()                      # a write to the watched word is accepted: reads in flight may see either value
    top.comb += kill.eq(aw_hs & aw_hit)
    for i in range(QN):
        nchk = rq_chk[i + 1] if i + 1 < QN else Constant(0, 1)
        nexp = rq_exp[i + 1] if i + 1 < QN else Constant(0, 8)
        top.sync += [If(r_hs, rq_chk[i].eq(nchk & ~kill), rq_exp[i].eq(nexp),
                        If(ar_hs & (rq_lvl == i + 1), rq_chk[i].eq(ar_hit & clean), rq_exp[i].eq(ref))
                        ).Else(If(kill, rq_chk[i].eq(0)),
                               If(ar_hs & (rq_lvl == i), rq_chk[i].eq(ar_hit & clean), rq_exp[i].eq(ref)))]
    top.sync += rq_lvl.eq(rq_lvl + ar_hs - r_hs)
    asm("outstanding_reads_bounded", ~axi.ar.valid | (rq_lvl < QN))
    got = memstub.byte_of(axi.r.data, WL, nb)
    bad("read_after_write_response_returns_stale_or_corrupted_byte", r_hs & (rq_lvl != 0) & rq_chk[0] & (got != rq_exp[0]))
    bad("read_beat_without_pending_ar", axi.r.valid & (rq_lvl == 0))
    bad("write_response_without_pending_aw", axi.b.valid & (out_w == 0))
    covers = {}
    sw = monitors.Sticky(wr_hit)
    top.submodules += sw
    cv = Signal()
    top.comb += cv.eq(r_hs & (rq_lvl != 0) & rq_chk[0] & sw.out)
    covers["checked_read_of_watched_byte_after_a_write_to_it"] = cv
    if not full_strobes:
        # a write to the watched word that does not strobe the watched lane, followed by a checked read
        sp = monitors.Sticky(w_hs & wq_hit[0] & ~memstub.bit_of(axi.w.strb, WL, nb))
        top.submodules += sp
        cv2 = Signal()
        top.comb += cv2.eq(r_hs & (rq_lvl != 0) & rq_chk[0] & sp.out)
        covers["checked_read_after_partial_write_that_skips_the_watched_lane"] = cv2
    b = bmc.Bench(name, top, inputs, consts={"WA": WA, "WL": WL}, free_init={"mem_byte": mem, "ref_byte": ref}, init_assume=[mem == ref],
                  assumes=assumes, bads=bads, covers=covers, info=dict(rmw=rmw, base=base, wdepth=wdepth, rdepth=rdepth, dw=dw, aw=aw))
    b.watch = {"aw_hs": aw_hs, "w_hs": w_hs, "b_hs": b_hs, "ar_hs": ar_hs, "r_hs": r_hs, "awaddr": axi.aw.addr, "araddr": axi.ar.addr,
               "wstrb": axi.w.strb, "wdata": axi.w.data, "rdata": axi.r.data, "n_v": port.cmd.valid, "n_r": port.cmd.ready,
               "n_we": port.cmd.we, "n_a": port.cmd.addr, "mem": mem, "ref": ref, "chk": rq_chk[0], "exp": rq_exp[0]}
    return b


BYTES_CONFIGS = {
    "bytes_plain_base32": (dict(base=32), 16, 24, "qt"),
    "bytes_rmw_base32": (dict(rmw=True, base=32), 16, 26, "qt"),
    "bytes_plain_dw16_d4": (dict(dw=16, wdepth=4, rdepth=4), 0, 24, "t"),
    "bytes_rmw_dw16": (dict(rmw=True, dw=16), 0, 26, "t"),
}

CONFIGS = {
    "axi_d2_base64": (dict(wdepth=2, rdepth=2, base=64), 14, 20, "qt"),
    "axi_rmw_base64": (dict(rmw=True, base=64), 14, 20, "qt"),
    # more write bursts outstanding than the ID FIFO is deep (see the known finding); only the ID/response pairing monitors are asked
    "manyoutstanding_axi_d2": (dict(wdepth=2, rdepth=2, qdepth=5), 14, 18, "qt"),
    "freewready_axi_d2": (dict(wdepth=2, rdepth=2, free_wready=True), 13, 18, "qt"),
    "axi_d4": (dict(), 0, 22, "t"),
    "axi_d16": (dict(wdepth=16, rdepth=16), 0, 20, "t"),
    "axi_rmw_d2": (dict(rmw=True, wdepth=2, rdepth=2), 0, 20, "t"),
}
BENCHES = {n: partial(axi_bench, n, **c[0]) for n, c in CONFIGS.items()}
BENCHES.update({n: partial(axi_bytes_bench, n, **c[0]) for n, c in BYTES_CONFIGS.items()})


def run(ctx):
    ctx.assume("AXI master: valid/payload stable until ready on AW, W, AR; bursts FIXED/INCR/WRAP with len <= 3 (WRAP 2 or 4 beats, "
               "aligned), size = bus width, inside the address window above base_address; W beats are sent after their AW was accepted "
               "with LAST on the final beat; at most 3 bursts outstanding per direction; B/R ready free")
    ctx.assume("benches other than 'manyoutstanding_*': at most 2 bursts outstanding per direction (= the smallest buffer depth used); "
               "'manyoutstanding_*' allows 4 with buffer depth 2 and exposes the known finding on the write ID FIFO")
    ctx.assume("'freewready_*' bench: the native side may pulse wdata.ready at any time, also with no write command outstanding "
               "(the bridge gates its data on accepted commands); a beat counts as written when valid & ready")
    ctx.assume("native side: in-order memory stub with the real crossbar's pulse semantics, arbitrary stalls, latency >= 2, <= 3 "
               "commands queued; read data arbitrary")
    ctx.assume("bytes_* benches (byte-level memory semantics): single-beat full-width INCR accesses, <= 2 writes without B and <= 2 reads "
               "without R outstanding, memory stub that stores one byte at a symbolic word/lane; a read is checked when no write to the "
               "watched word is outstanding at its AR handshake and none is accepted before its R beat (reads overlapping a write may "
               "legally return either value and are not checked)")
    for n, (kw, kq, kt, tiers) in CONFIGS.items():
        if ctx.only and not ctx.only.search(n):
            continue
        if n.startswith("manyoutstanding"):
            ctx.add(n, kq if ctx.tier == "quick" else kt, timeout=600, min_K=12, first_chunk=10, chunk=2, cover_required=False,
                    bads=["write_response_id_differs_from_its_aw", "write_response_without_pending_aw", "read_beat_id_differs_from_its_ar",
                          "read_beat_without_pending_ar", "monitor_queue_overflow"])
            continue
        if ctx.tier == "quick" and "q" in tiers:
            ctx.add(n, kq, timeout=600, min_K=kq - 1, first_chunk=10, chunk=1, cover_required=False)
        elif ctx.tier == "thorough":
            ctx.add(n, kt, timeout=3300, min_K=(kq or 16) - 2, first_chunk=10, chunk=1, cover_required=False)
    for n, (kw, kq, kt, tiers) in BYTES_CONFIGS.items():
        if ctx.only and not ctx.only.search(n):
            continue
        if ctx.tier == "quick" and "q" in tiers:
            ctx.add(n, kq, timeout=900, min_K=kq - 1, first_chunk=10, chunk=1, deep_timeout=400)
        elif ctx.tier == "thorough":
            ctx.add(n, kt, timeout=1200, min_K=(kq or 16) - 1, first_chunk=10, chunk=1)
    ctx.run()
