#!/bin/bash
# usage: confirm_queue.sh <id> ...   (sequentially confirms seeds 1 and 2 of each id)
for id in "$@"; do
  for n in 1 2; do
    python3 /verif/scripts/confirm_seed.py /tmp/wt_$id $n ${id}_$n > /verif/scratch/confirm_${id}_$n.log 2>&1
  done
done
