"""Bounded model checking / k-induction / witness queries on top of fhdl2smt.

A ``Bench`` is a real Migen top module (DUT built by the real constructors +
monitor modules written in Migen) together with
  inputs     : name -> Signal   free bit-vector per frame
  consts     : name -> Signal   symbolic but constant over the run
  free_init  : name -> Signal   registers whose initial value is symbolic
  init_assume: list of Migen expressions that must be non-zero in frame 0
               (constrains the symbolic initial state)
  assumes    : name -> 1-bit Signal, environment contract, must be 1 in every
               frame up to and including the frame in which a violation is flagged
  bads       : name -> 1-bit Signal, a 1 in any frame is a violation
  covers     : name -> 1-bit Signal, must be reachable (vacuity guard)
"""
import collections
import hashlib
import json
import multiprocessing
import os
import random
import time
import concurrent.futures as cf

import z3

from . import fhdl2smt
from .fhdl2smt import Design, Unroller, RefSim


class Bench:
    def __init__(self, name, top, inputs, consts=None, free_init=None, init_assume=(),
                 assumes=None, bads=None, covers=None, schedule=None, clock_domains=("sys",),
                 info=None, fairness=None, tick_inputs=None, always_tick=(), abstract_memories=None, concrete_factory=None,
                 free_all_except=None):
        self.name = name
        self.top = top
        self.inputs = collections.OrderedDict(inputs)
        # abstract_memories: callable(Memory) -> watch-address expression (or None): those memories keep only the watched word
        # (fhdl2smt.MemoryToWatched); concrete_factory() builds the same bench without the abstraction, used to replay models
        self.concrete_factory = concrete_factory
        self._concrete = None
        self.memory_abstraction = None
        if abstract_memories is not None:
            frag = top.get_fragment()
            tr = fhdl2smt.MemoryToWatched(abstract_memories)
            tr.transform_fragment(frag)
            for sgn in tr.free_inputs:
                self.inputs[sgn.name_override] = sgn
            self.memory_abstraction = dict(memories=len(tr.words), free_read_inputs=len(tr.free_inputs))
            top = frag
        self.consts = collections.OrderedDict(consts or {})
        self.free_init = collections.OrderedDict(free_init or {})
        self.init_assume = list(init_assume)
        self.assumes = collections.OrderedDict(assumes or {})
        self.bads = collections.OrderedDict(bads or {})
        self.covers = collections.OrderedDict(covers or {})
        self.schedule = schedule
        self.info = info or {}
        self.fairness = fairness  # for schedule == "free": max consecutive frames a domain may not tick
        self.tick_inputs = dict(tick_inputs or {})   # domain -> input Signal that mirrors "this domain ticks at the end of the frame"
        self.always_tick = tuple(always_tick)
        t0 = time.time()
        stable = {}
        for n, s in list(self.inputs.items()) + list(self.consts.items()) + list(self.free_init.items()):
            stable[s] = n
        self.design = Design(top, inputs=list(self.inputs.values()), consts=list(self.consts.values()),
                             extra_clock_domains=clock_domains, name=name, stable_names=stable)
        self.elab_s = time.time() - t0
        if free_all_except is not None:
            # every register of the design starts from an arbitrary value, except the listed ones (which keep their reset value)
            keep = set(free_all_except)
            for sgn in sorted(self.design.regs, key=lambda x: x.duid):
                if sgn not in keep and sgn not in self.free_init.values():
                    self.free_init["reg_%s" % self.design.sig_name(sgn)] = sgn
        for n, s in self.free_init.items():
            if not self.design.is_state(s):
                raise fhdl2smt.EncodeError("free_init %s is not a register" % n)
        self._in_name = {s: n for n, s in self.inputs.items()}

    def state_bits(self):
        return self.design.state_bits()

    def replay_bench(self):
        """the bench a solver model is replayed on: the un-abstracted twin when memories were abstracted"""
        if self.concrete_factory is None:
            return self
        if self._concrete is None:
            self._concrete = self.concrete_factory()
        return self._concrete


class Unrolled:
    """Unroller + named goal Booleans, serialisable for worker processes."""

    def __init__(self, bench, K, free_all=False, coi=True):
        self.b = bench
        d = bench.design
        fi = set(d.regs) if free_all else set(bench.free_init.values())
        cone = None
        if coi:
            roots = list(bench.assumes.values()) + list(bench.bads.values()) + list(bench.covers.values())
            cone = d.cone(roots, bench.init_assume)
        self.cone_bits = sum(len(s) for s in d.regs if cone is None or s in cone)
        self.U = U = Unroller(d, free_init=fi, schedule=bench.schedule, cone=cone)
        t0 = time.time()
        U.extend(K)
        self.K = K
        cons = list(U.constraints)
        for e in bench.init_assume:
            x = U.expr(e, 0)
            cons.append(x != z3.BitVecVal(0, x.size()))
        if bench.schedule == "free":
            doms = sorted(d.sync_targets.keys())
            for t in range(K + 1):
                cons.append(z3.Or(*[U.tick_vars[t][cd] for cd in doms if cd not in bench.always_tick]))
                for cd in bench.always_tick:
                    if cd in U.tick_vars[t]:
                        cons.append(U.tick_vars[t][cd])
                for cd, sig in bench.tick_inputs.items():
                    if cd in U.tick_vars[t] and sig in U.fvars[t]:
                        cons.append(U.bit(sig, t) == U.tick_vars[t][cd])
            if bench.fairness:
                R = bench.fairness
                for cd in [x for x in doms if x not in bench.always_tick]:
                    for t in range(0, K + 1 - R):
                        cons.append(z3.Or(*[U.tick_vars[u][cd] for u in range(t, t + R + 1)]))
        # goal booleans
        self.ok = []
        prev = z3.BoolVal(True)
        for t in range(K + 1):
            a = [U.bit(s, t) for s in bench.assumes.values()]
            okt = z3.Bool("OK!%d" % t)
            cons.append(okt == z3.And(prev, *a))
            self.ok.append(okt)
            prev = okt
        self.goal = {}
        for kind, table in (("V", bench.bads), ("COV", bench.covers)):
            for n, s in table.items():
                for t in range(K + 1):
                    g = z3.Bool("%s!%s!%d" % (kind, n, t))
                    cons.append(g == z3.And(self.ok[t], U.bit(s, t)))
                    self.goal[(kind, n, t)] = g
        # raw (without assumption chain) bad bits for induction
        self.raw_bad = {}
        for n, s in bench.bads.items():
            for t in range(K + 1):
                g = z3.Bool("RAWBAD!%s!%d" % (n, t))
                cons.append(g == U.bit(s, t))
                self.raw_bad[(n, t)] = g
        self.constraints = cons
        self.build_s = time.time() - t0
        self._text = None

    def text(self):
        if self._text is None:
            s = z3.Solver()
            s.add(*self.constraints)
            self._text = s.sexpr()
        return self._text


# ---- worker side ----------------------------------------------------------------------------------

_MODEL_RE = None
Z3_BIN = os.environ.get("VERIF_Z3_BIN", "/usr/bin/z3")
PY_TACTIC = ['simplify', 'propagate-values', 'solve-eqs', 'elim-uncnstr', 'simplify', 'bit-blast', 'aig', 'sat']


def _parse_model(out):
    import re
    global _MODEL_RE
    if _MODEL_RE is None:
        _MODEL_RE = re.compile(r"\(define-fun\s+(\|[^|]*\||[^\s()]+)\s+\(\)\s+(?:\(_ BitVec \d+\)|Bool)\s+"
                               r"(#x[0-9a-fA-F]+|#b[01]+|true|false)\)")
    model = {}
    for m in _MODEL_RE.finditer(out):
        n, v = m.group(1), m.group(2)
        if n.startswith("|"):
            n = n[1:-1]
        if v.startswith("#x"):
            model[n] = int(v[2:], 16)
        elif v.startswith("#b"):
            model[n] = int(v[2:], 2)
        else:
            model[n] = 1 if v == "true" else 0
    return model


def _q(n):
    return "|%s|" % n


def _worker(args):
    """decide one query.  Primary engine: the z3 4.8.12 binary (its QF_BV strategy is by far the fastest on
    these unrollings in this sandbox); engine 'py' = z3 5.1 wheel with an explicit bit-blast/aig/sat pipeline."""
    text_key, text, assert_names, neg_names, timeout_ms, want_model, engine = args
    import subprocess
    import tempfile
    import shutil
    t0 = time.time()
    engine = engine or os.environ.get("VERIF_SOLVER", "z3bin")
    if engine == "z3bin" and not os.path.exists(Z3_BIN):
        engine = "py"
    if engine == "py":
        ctx = z3.Context()
        s = z3.Then(*[z3.Tactic(x, ctx) for x in PY_TACTIC]).solver()
        if timeout_ms:
            s.set("timeout", int(timeout_ms))
        s.from_string(text)
        for clause in assert_names:
            s.add(z3.Or(*[z3.Bool(n, ctx) for n in clause]))
        for n in neg_names:
            s.add(z3.Not(z3.Bool(n, ctx)))
        r = s.check()
        res = str(r)
        model = None
        reason = None
        if res == "sat" and want_model:
            m = s.model()
            model = {}
            for dcl in m.decls():
                v = m[dcl]
                if z3.is_bv_value(v):
                    model[dcl.name()] = v.as_long()
                elif z3.is_true(v):
                    model[dcl.name()] = 1
                elif z3.is_false(v):
                    model[dcl.name()] = 0
        if res == "unknown":
            reason = s.reason_unknown()
        return res, time.time() - t0, model, reason
    tmpd = tempfile.mkdtemp(prefix="verif_q_")
    try:
        path = os.path.join(tmpd, "q.smt2")
        with open(path, "w") as f:
            f.write("(set-logic QF_BV)\n")
            f.write(text)
            f.write("\n")
            for clause in assert_names:
                f.write("(assert (or %s false))\n" % " ".join(_q(n) for n in clause))
            for n in neg_names:
                f.write("(assert (not %s))\n" % _q(n))
            f.write("(check-sat)\n")
        cmd = [Z3_BIN]
        if timeout_ms:
            cmd.append("-T:%d" % max(1, int(timeout_ms / 1000)))
        p = subprocess.run(cmd + [path], stdout=subprocess.PIPE, stderr=subprocess.STDOUT, universal_newlines=True)
        out = p.stdout
        first = out.strip().splitlines()[0].strip() if out.strip() else ""
        if "(error" in out:
            return "unknown", time.time() - t0, None, "solver error: %s" % out[:300]
        if first == "unsat":
            return "unsat", time.time() - t0, None, None
        if first != "sat":
            return "unknown", time.time() - t0, None, (first or "no output")[:200]
        model = None
        if want_model:
            with open(path, "a") as f:
                f.write("(get-model)\n")
            p = subprocess.run(cmd + [path], stdout=subprocess.PIPE, stderr=subprocess.STDOUT, universal_newlines=True)
            if "(error" in p.stdout or not p.stdout.strip().startswith("sat"):
                return "unknown", time.time() - t0, None, "model extraction failed: %s" % p.stdout[:200]
            model = _parse_model(p.stdout)
        return "sat", time.time() - t0, model, None
    finally:
        shutil.rmtree(tmpd, ignore_errors=True)


class Query:
    def __init__(self, label, unrolled, clauses, negs=(), timeout_s=None, want_model=True, kind="violation"):
        self.label = label
        self.u = unrolled
        self.clauses = clauses  # list of list of goal names (AND of ORs)
        self.negs = list(negs)
        self.timeout_s = timeout_s
        self.want_model = want_model
        self.kind = kind
        self.result = None
        self.time_s = None
        self.model = None
        self.reason = None


def run_queries(queries, jobs=None, tactic=None):
    jobs = jobs or min(16, os.cpu_count() or 1)
    if not queries:
        return
    ctxm = multiprocessing.get_context("fork")
    with cf.ProcessPoolExecutor(max_workers=min(jobs, len(queries)), mp_context=ctxm) as ex:
        futs = {}
        for q in queries:
            args = (id(q.u), q.u.text(), q.clauses, q.negs,
                    int(q.timeout_s * 1000) if q.timeout_s else 0, q.want_model, tactic)
            futs[ex.submit(_worker, args)] = q
        for f in cf.as_completed(futs):
            q = futs[f]
            try:
                q.result, q.time_s, q.model, q.reason = f.result()
            except Exception as e:  # worker crash = inconclusive
                q.result, q.time_s, q.model, q.reason = "unknown", 0.0, None, "worker error: %r" % (e,)


# ---- model -> trace, replay -----------------------------------------------------------------------

def model_to_stimulus(bench, model, K):
    """extract per-frame input table, consts, initial values and tick schedule from a solver model"""
    d = bench.design
    stim = {"consts": {}, "init": {}, "frames": [], "ticks": []}
    for n, s in bench.consts.items():
        stim["consts"][n] = model.get("C!%s" % d.sig_name(s), 0)
    for n, s in bench.free_init.items():
        stim["init"][n] = model.get("S0!%s" % d.sig_name(s), s.reset.value & (2**len(s) - 1))
    for t in range(K + 1):
        fr = {}
        for n, s in bench.inputs.items():
            fr[n] = model.get("I%d!%s" % (t, d.sig_name(s)), 0)
        stim["frames"].append(fr)
        if bench.schedule == "free":
            stim["ticks"].append(sorted(cd for cd in d.sync_targets if model.get("tick%d!%s" % (t, cd), 0)))
    return stim


def _signed_fix(s, v):
    n = len(s)
    v &= 2**n - 1
    if s.signed and v >> (n - 1):
        v -= 2**n
    return v


def simulate(bench, stim, watch=None, nframes=None):
    """run the stimulus on the real Migen Evaluator; returns per-frame dict of
    assumes/bads/covers (+ watch signals)"""
    d = bench.design
    init = {bench.free_init[n]: _signed_fix(bench.free_init[n], v) for n, v in stim["init"].items()}
    consts = {bench.consts[n]: _signed_fix(bench.consts[n], v) for n, v in stim["consts"].items()}
    sim = RefSim(d, init=init, consts=consts)
    out = []
    frames = stim["frames"] if nframes is None else stim["frames"][:nframes]
    for t, fr in enumerate(frames):
        sim.set_inputs({bench.inputs[n]: _signed_fix(bench.inputs[n], v) for n, v in fr.items() if n in bench.inputs})
        rec = {"assume": {n: sim.get(s) & 1 for n, s in bench.assumes.items()},
               "bad": {n: sim.get(s) & 1 for n, s in bench.bads.items()},
               "cover": {n: sim.get(s) & 1 for n, s in bench.covers.items()}}
        if watch:
            rec["watch"] = {n: sim.get(s) for n, s in watch.items()}
        out.append(rec)
        if bench.schedule is None:
            sim.tick(None)
        elif bench.schedule == "free":
            sim.tick(set(stim["ticks"][t]))
        else:
            sim.tick(set(bench.schedule[t % len(bench.schedule)]))
    return out


def replay_confirms(bench, stim, kind, name, t, watch=None):
    """does the real Migen evaluation reproduce goal (kind,name) at frame t with
    all assumptions satisfied in frames 0..t ?"""
    if bench.replay_bench() is not bench:
        bench = bench.replay_bench()        # memories abstracted for the solver: replay on the real memories
        watch = getattr(bench, "watch", None) if watch is not None else None
    recs = simulate(bench, stim, watch=watch, nframes=t + 1)
    for i, r in enumerate(recs):
        if not all(r["assume"].values()):
            return False, recs, "assumption %s false at frame %d in replay" % (
                [n for n, v in r["assume"].items() if not v], i)
    key = "bad" if kind == "V" else "cover"
    if not recs[t][key][name]:
        return False, recs, "%s %s not reproduced at frame %d" % (key, name, t)
    return True, recs, "reproduced"


# ---- translator validation ------------------------------------------------------------------------

def diff_validate(bench, ncycles=24, seed=0, bias=None, max_comb=400):
    """random concrete stimulus through (a) the z3 encoding and (b) migen's Evaluator;
    every register and a sample of comb signals must agree in every frame.
    returns (n_compared, mismatches)"""
    rnd = random.Random(seed)
    d = bench.design
    u = Unrolled(bench, ncycles, coi=False)
    U = u.U
    stim = {"consts": {}, "init": {}, "frames": [], "ticks": []}

    def rv(s):
        n = len(s)
        r = rnd.random()
        if n == 1:
            p = (bias or {}).get(s, 0.6)
            return 1 if rnd.random() < p else 0
        if r < 0.15:
            return 0
        if r < 0.3:
            return 2**n - 1
        if r < 0.6:
            return rnd.randrange(min(2**n, 4))
        return rnd.randrange(2**n)
    for n, s in bench.consts.items():
        stim["consts"][n] = rv(s)
    for n, s in bench.free_init.items():
        stim["init"][n] = rv(s)
    doms = sorted(d.sync_targets.keys())
    for t in range(ncycles + 1):
        stim["frames"].append({n: rv(s) for n, s in bench.inputs.items()})
        if bench.schedule == "free":
            tk = [cd for cd in doms if rnd.random() < 0.6] or [rnd.choice(doms)]
            stim["ticks"].append(tk)
    sol = z3.SolverFor("QF_BV")
    sol.add(*U.constraints)
    for n, s in bench.consts.items():
        sol.add(U.const_vars[s] == stim["consts"][n])
    for n, s in bench.free_init.items():
        sol.add(U.fvars[0][s] == stim["init"][n])
    for t in range(ncycles + 1):
        for n, s in bench.inputs.items():
            sol.add(U.fvars[t][s] == stim["frames"][t][n])
        if bench.schedule == "free":
            for cd in doms:
                sol.add(U.tick_vars[t][cd] == (cd in stim["ticks"][t]))
    r = sol.check()
    if str(r) != "sat":
        return 0, ["encoding has no behaviour for a concrete stimulus (%s)" % r]
    m = sol.model()
    init = {bench.free_init[n]: _signed_fix(bench.free_init[n], v) for n, v in stim["init"].items()}
    consts = {bench.consts[n]: _signed_fix(bench.consts[n], v) for n, v in stim["consts"].items()}
    sim = RefSim(d, init=init, consts=consts)
    combs = sorted(d.comb_targets, key=lambda s: s.duid)
    if len(combs) > max_comb:
        keep = set(bench.assumes.values()) | set(bench.bads.values()) | set(bench.covers.values())
        rest = [s for s in combs if s not in keep]
        rnd.shuffle(rest)
        combs = list(keep) + rest[:max_comb]
    mismatches = []
    compared = 0
    for t in range(ncycles + 1):
        sim.set_inputs({bench.inputs[n]: _signed_fix(bench.inputs[n], v) for n, v in stim["frames"][t].items()})
        for s in d.regs + combs:
            ref = sim.get(s) & (2**len(s) - 1)
            got = m.eval(U.sig(s, t), model_completion=True).as_long()
            compared += 1
            if ref != got:
                mismatches.append("frame %d signal %s: migen.sim=%d encoding=%d" % (t, d.sig_name(s), ref, got))
                if len(mismatches) > 20:
                    return compared, mismatches
        if bench.schedule is None:
            sim.tick(None)
        elif bench.schedule == "free":
            sim.tick(set(stim["ticks"][t]))
        else:
            sim.tick(set(bench.schedule[t % len(bench.schedule)]))
    return compared, mismatches
