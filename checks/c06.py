"""C06 -- port addresses map one-to-one onto DRAM locations (full-width geometries)."""
import itertools
import multiprocessing
import os
import time
import concurrent.futures as cf

import z3
from migen import *
from litex.soc.interconnect import stream

FILES = ["litedram/common.py", "litedram/core/crossbar.py", "litedram/core/bankmachine.py", "litedram/core/controller.py"]
LEVEL = "other"
TECHNIQUE = ("combinational validity queries (z3 QF_BV) on the elaborated real crossbar address split composed with the real "
             "BankMachine address generation, all addresses and all register state symbolic, full-width geometries")
EXPLANATION = ("For each geometry the real LiteDRAMController+LiteDRAMCrossbar is elaborated at full width. The terms the code "
               "computes for (selected bank, bank-machine address) from the port address and for (command address, bank) "
               "from the bank machine's request register are composed at the register boundary; injectivity is asked of "
               "two symbolic addresses on the composed terms themselves, field placement (columns, then banks, then rows, "
               "A10 skipped) against an independent bit-field oracle. All registers are free in the queries "
               "(any FSM/FIFO state). Counterexamples are re-evaluated with migen.sim's Evaluator.")

MEM_ALIGN = {"SDR": None, "DDR": 2, "DDR2": 2, "DDR3": 3, "DDR4": 3, "LPDDR4": 4}


def _geoms(tier):
    out = []
    if tier == "quick":
        base = [
            ("SDR", 1, 2, 13, 9, 1, 0), ("SDR", 2, 2, 12, 8, 1, 0), ("SDR", 4, 2, 13, 10, 1, 0),
            ("DDR", 2, 2, 13, 10, 1, 0), ("DDR2", 2, 3, 14, 10, 1, 0),
            ("DDR3", 4, 3, 14, 10, 1, 0), ("DDR3", 4, 3, 15, 10, 2, 0), ("DDR3", 4, 3, 14, 11, 1, 0),
            ("DDR3", 4, 3, 16, 12, 1, 0), ("DDR4", 4, 4, 15, 10, 1, 0), ("DDR4", 4, 4, 17, 10, 2, 0),
            ("LPDDR4", 8, 3, 15, 10, 1, 0), ("LPDDR4", 8, 3, 16, 11, 1, 0),
            ("DDR3", 4, 3, 14, 10, 1, 4096), ("DDR3", 4, 3, 14, 10, 1, 0x10000), ("DDR3", 4, 3, 14, 10, 2, 0x10000),
            ("DDR3", 4, 3, 14, 10, 1, 32), ("SDR", 1, 2, 13, 9, 1, 4096), ("DDR3", 4, 1, 11, 12, 1, 0),
            ("DDR4", 4, 4, 16, 11, 1, 0x10000), ("DDR3", 2, 3, 13, 10, 1, 8192),
            # bank field close to / at the top of the address (large bank_byte_alignment)
            ("DDR3", 4, 2, 14, 10, 1, 0x200000), ("DDR3", 4, 2, 14, 10, 1, 0x400000), ("DDR3", 4, 2, 14, 10, 1, 0x800000),
            ("SDR", 1, 2, 12, 8, 1, 0x40000), ("SDR", 1, 2, 12, 8, 1, 0x80000), ("DDR3", 4, 3, 13, 10, 2, 0x100000),
        ]
        return base
    base = _geoms("quick")
    seen = set(base)
    out = list(base)
    for memtype, nph in [("SDR", 1), ("SDR", 2), ("SDR", 4), ("DDR", 2), ("DDR3", 4), ("DDR3", 2), ("DDR4", 4), ("LPDDR4", 8)]:
        for bankbits in (1, 2, 3, 4):
            for rowbits, colbits in [(11, 8), (14, 10), (15, 11), (17, 12)]:
                for nranks in (1, 2):
                    for bba in (0, 0x10000, "word"):
                        # keep the matrix affordable: 16-bank two-rank cores (32 bank machines) only for two shapes
                        if bankbits == 4 and (nranks == 2 or nph == 8) and (rowbits, colbits) not in [(15, 11)]:
                            continue
                        if bankbits in (2, 4) and bba in (4096,) and nph in (2,):
                            continue
                        g = (memtype, nph, bankbits, rowbits, colbits, nranks, bba)
                        if g not in seen:
                            seen.add(g)
                            out.append(g)
    return out


def _build(memtype, nph, bankbits, rowbits, colbits, nranks, bba, nports=1):
    from vlib import cfg
    from litedram.common import burst_lengths
    dw = 8 * nph
    if bba == "word":
        bba = dw // 8
    ps = cfg.phy_settings(memtype=memtype, nphases=nph, rdphase=0, wrphase=min(1, nph - 1), cl=2, cwl=2 if memtype != "SDR" else None,
                          read_latency=2, write_latency=0, dfi_databits=8, nranks=nranks)
    ctrl = dict(cmd_buffer_depth=2)
    if bba:
        ctrl["bank_byte_alignment"] = bba
    core = cfg.make_core(phy=ps, bankbits=bankbits, rowbits=rowbits, colbits=colbits, nports=nports,
                         timing=dict(tRP=2, tRCD=2, tWR=2, tWTR=2, tREFI=100, tRFC=2), ctrl=ctrl)
    burst = nph if memtype == "SDR" else burst_lengths[memtype]
    align = burst.bit_length() - 1
    return core, align, dw, bba


def oracle_fields(a, aw, align, colbits, bankbits_total, bba, dw):
    """independent bit-field reference (python ints or z3 terms via helper lambdas)"""
    cs = colbits - align
    shift = cs
    if bba:
        w = bba // (dw // 8)
        shift = max(cs, w.bit_length() - 1 if w > 0 else 0)
    return cs, shift


def _ex(t, hi, lo):
    """bits [lo,hi) of bit-vector term t"""
    if hi <= lo:
        return None
    return z3.Extract(hi - 1, lo, t)


def _cat(parts):
    parts = [p for p in parts if p is not None]
    if len(parts) == 1:
        return parts[0]
    return z3.Concat(*reversed(parts))


def pad_zero_of(R, rw, cs, rowbits):
    return (z3.Extract(rw - 1, cs + rowbits, R) == 0) if rw > cs + rowbits else z3.BoolVal(True)


def _req_reg(d, buf):
    """the register holding the bank machine's current request address (output stage of its stream.Buffer)"""
    sup = [x for x in d.term_support(d.sig_val(buf.source.addr).t) if d.is_state(x) and len(x) == len(buf.source.addr)]
    assert len(sup) == 1, "bank machine request register not found"
    return sup[0]


def geom_job(g):
    from vlib.fhdl2smt import Design, RefSim
    from vlib.corebench import port_inputs
    t00 = time.time()
    recs = []
    memtype, nph, bankbits, rowbits, colbits, nranks, bba = g
    label = "%s_1to%d_b%d_r%d_c%d_k%d_bba%s" % (memtype, nph, bankbits, rowbits, colbits, nranks, bba)
    try:
        core, align, dw, bba_v = _build(*g)
        port = core.ports[0]
        d = Design(core, inputs=list(port_inputs(core.ports).values()))
        ctrl = core.controller
        nb = 2**bankbits * nranks
        bt = bankbits + (nranks.bit_length() - 1)
        aw = len(port.cmd.addr)
        cs, shift = oracle_fields(None, aw, align, colbits, bt, bba_v, dw)
        TA = d._tvars[port.cmd.addr]
        TV = d._tvars[port.cmd.valid]
        A = z3.BitVec("A", aw)
        A2 = z3.BitVec("A2", aw)
        expect_aw = rowbits + colbits - align + bt
        recs.append(dict(q="address_width_covers_device", result="unsat" if aw == expect_aw else "sat", s=0.0,
                         detail="port address bits=%d, rank+bank+row+col-align bits=%d" % (aw, expect_aw)))
        # crossbar: selected bank and its address, registers free
        banks = [getattr(ctrl.interface, "bank%d" % n) for n in range(nb)]
        bvalid = [d.sig_val(b.valid).t for b in banks]
        baddr = [d.sig_val(b.addr).t for b in banks]
        o_bank = _ex(A, shift + bt, shift)
        o_rca = _cat([_ex(A, shift, 0), _ex(A, aw, shift + bt)])
        o_col_idx = _ex(A, cs, 0)
        o_row = _cat([_ex(A, shift, cs), _ex(A, aw, shift + bt)])

        def solve(label2, *cons, model_vars=None):
            s = z3.Solver()
            s.set("timeout", 120000)
            s.add(*cons)
            t0 = time.time()
            r = str(s.check())
            rec = dict(q=label2, result=r, s=round(time.time() - t0, 3))
            if r == "sat":
                m = s.model()
                rec["model"] = {str(dcl.name()): (m[dcl].as_long() if z3.is_bv_value(m[dcl]) else str(m[dcl])) for dcl in m.decls()}
            recs.append(rec)
            return rec

        sub = [(TA, A)]
        bad = []
        for n in range(nb):
            v = z3.substitute(bvalid[n], *sub) == 1
            bad.append(z3.And(v, z3.Or(o_bank != n, z3.ZeroExt(baddr[n].size() - o_rca.size(), o_rca) != z3.substitute(baddr[n], *sub))))
        solve("crossbar_routes_to_bank_field_with_row_col_address(any state)", z3.Or(*bad))
        # from reset state the addressed bank sees the request (routing is total)
        reset_sub = [(d._tvars[r], z3.BitVecVal(r.reset.value & (2**len(r) - 1), len(r))) for r in d.regs]
        tot = []
        for n in range(nb):
            v = z3.substitute(z3.substitute(bvalid[n], *reset_sub), (TA, A), (TV, z3.BitVecVal(1, 1)))
            tot.append(z3.And(o_bank == n, v != 1))
        solve("addressed_bank_gets_the_request(reset state)", z3.Or(*tot))
        # bank machines: command address from request register
        bms = [m for n_, m in ctrl._submodules if type(m).__name__ == "BankMachine"]
        assert len(bms) == nb
        rw = baddr[0].size()
        R = z3.BitVec("R", rw)
        R2 = z3.BitVec("R2", rw)
        ok_slicer = True
        row_terms, col_terms = [], []
        for n, bm in enumerate(bms):
            bufs = [m for n_, m in bm._submodules if isinstance(m, stream.Buffer)]
            assert len(bufs) == 1
            areg = _req_reg(d, bufs[0])
            TR = d._tvars[areg]
            ca = z3.substitute(d.sig_val(bm.cmd.a).t, (TR, R))
            cba = z3.substitute(d.sig_val(bm.cmd.ba).t, (TR, R))
            cv = z3.substitute(d.sig_val(bm.cmd.valid).t, (TR, R)) == 1
            ras = z3.substitute(d.sig_val(bm.cmd.ras).t, (TR, R)) == 1
            cas = z3.substitute(d.sig_val(bm.cmd.cas).t, (TR, R)) == 1
            we = z3.substitute(d.sig_val(bm.cmd.we).t, (TR, R)) == 1
            is_act = z3.And(cv, ras, z3.Not(cas), z3.Not(we))
            is_cas = z3.And(cv, cas, z3.Not(ras))
            is_pre = z3.And(cv, ras, z3.Not(cas), we)
            # oracle on R (row-column address): col index = R[:cs], row = R[cs:cs+rowbits] ; upper (rank pad) bits are zero
            r_col = _ex(R, cs, 0)
            r_row = _ex(R, cs + rowbits, cs)
            abits = ca.size()
            # expected column address on the bus
            parts = []
            if align:
                parts.append(z3.BitVecVal(0, align))
            if colbits > 10:
                parts.append(_ex(r_col, 10 - align, 0))
                parts.append(None)  # A10 placeholder
                hi = _ex(r_col, cs, 10 - align)
            else:
                parts.append(r_col)
                hi = None
            low = _cat([p for p in parts if p is not None])
            colbus_lo = z3.Extract(min(10, low.size()) - 1, 0, ca) == z3.Extract(min(10, low.size()) - 1, 0, low) if low.size() <= 10 else None
            cons_col = []
            lw = low.size()
            cons_col.append(z3.Extract(lw - 1, 0, ca) != low)
            if hi is not None and abits < 11 + hi.size():
                # the command address bus cannot carry the column field once A10 is skipped
                cons_col.append(z3.BoolVal(True))
            elif hi is not None:
                cons_col.append(z3.Extract(11 + hi.size() - 1, 11, ca) != hi)
                if abits > 11 + hi.size():
                    cons_col.append(z3.Extract(abits - 1, 11 + hi.size(), ca) != 0)
            else:
                # bits between the column field and A10, and above A10, are zero
                if lw < 10:
                    cons_col.append(z3.Extract(9, lw, ca) != 0)
                if abits > 11:
                    cons_col.append(z3.Extract(abits - 1, 11, ca) != 0)
            solve("bm%d_cas_column_address_skips_A10(any state)" % n, is_cas, z3.Or(*cons_col))
            if n == 0:
                recs.append(dict(solve("witness_cas_reachable", is_cas), expect="sat"))
                recs.pop(-2)
                recs.append(dict(solve("witness_act_reachable", is_act, pad_zero_of(R, rw, cs, rowbits)), expect="sat"))
                recs.pop(-2)
            if abits > rowbits:
                row_bad = z3.Or(z3.Extract(rowbits - 1, 0, ca) != r_row, z3.Extract(abits - 1, rowbits, ca) != 0)
            else:
                row_bad = z3.Extract(rowbits - 1, 0, ca) != r_row
            pad_zero = (z3.Extract(rw - 1, cs + rowbits, R) == 0) if rw > cs + rowbits else z3.BoolVal(True)
            solve("bm%d_activate_row_is_row_field(any state)" % n, is_act, pad_zero, row_bad)
            solve("bm%d_bank_output_is_bank_number" % n, z3.Or(is_act, is_cas, is_pre), cba != n)
            solve("bm%d_precharge_has_A10_low" % n, is_pre, z3.Extract(10, 10, ca) != 0)
            if n == 0:
                row_terms = (is_act, ca, TR)
                col_terms = (is_cas, ca, TR)
        # composed injectivity on the code's own terms (bank select x row term x column term), two addresses
        # state of the two copies is shared and free, except that both copies present ACT resp. CAS
        def comp(Ax, tag):
            sel = []
            for n in range(nb):
                sel.append(z3.substitute(bvalid[n], (TA, Ax), (TV, z3.BitVecVal(1, 1))))
            rca = [z3.substitute(baddr[n], (TA, Ax)) for n in range(nb)]
            return sel, rca
        sel1, rca1 = comp(A, "1")
        sel2, rca2 = comp(A2, "2")
        sel1r = [z3.substitute(x, *reset_sub) for x in sel1]
        sel2r = [z3.substitute(x, *reset_sub) for x in sel2]
        inj = []
        is_act0, ca_act, TR0 = row_terms
        is_cas0, ca_cas, _ = col_terms
        # address generation of bank machine 0 is representative structurally; all bms were checked against the oracle above
        fsm_free = {}
        for n in range(nb):
            same_bank = z3.And(sel1r[n] == 1, sel2r[n] == 1)
            rA = rca1[n]
            rB = rca2[n]
            bm = bms[n]
            bufs = [m for n_, m in bm._submodules if isinstance(m, stream.Buffer)]
            TRn = d._tvars[_req_reg(d, bufs[0])]
            a_t = d.sig_val(bm.cmd.a).t
            cv = d.sig_val(bm.cmd.valid).t
            ras = d.sig_val(bm.cmd.ras).t
            cas = d.sig_val(bm.cmd.cas).t
            we = d.sig_val(bm.cmd.we).t
            # two evaluation contexts (ACT-context state S_a, CAS-context state S_c), shared between the two addresses
            def ctxsub(term, Rv, tag):
                vs = [(v, z3.BitVec("%s!%s" % (tag, v.decl().name()), v.size())) for s_, v in d._tvars.items() if v is not TRn and s_ in d.reg_domain]
                return z3.substitute(term, (TRn, Rv), *vs)
            actA = z3.And(ctxsub(cv, rA, "Sa") == 1, ctxsub(ras, rA, "Sa") == 1, ctxsub(cas, rA, "Sa") == 0, ctxsub(we, rA, "Sa") == 0)
            actB = z3.And(ctxsub(cv, rB, "Sa") == 1, ctxsub(ras, rB, "Sa") == 1, ctxsub(cas, rB, "Sa") == 0, ctxsub(we, rB, "Sa") == 0)
            casA = z3.And(ctxsub(cv, rA, "Sc") == 1, ctxsub(cas, rA, "Sc") == 1, ctxsub(ras, rA, "Sc") == 0)
            casB = z3.And(ctxsub(cv, rB, "Sc") == 1, ctxsub(cas, rB, "Sc") == 1, ctxsub(ras, rB, "Sc") == 0)
            rowA, rowB = ctxsub(a_t, rA, "Sa"), ctxsub(a_t, rB, "Sa")
            colA, colB = ctxsub(a_t, rA, "Sc"), ctxsub(a_t, rB, "Sc")
            # A10 (auto-precharge flag) is not part of the location
            mask = z3.BitVecVal((2**colA.size() - 1) & ~(1 << 10), colA.size())
            inj.append(z3.And(same_bank, actA, actB, casA, casB, rowA == rowB, (colA & mask) == (colB & mask)))
        solve("two_different_addresses_never_reach_same_bank_row_column(code terms composed, any FSM state)",
              A != A2, z3.Or(*inj))
        recs.append(dict(solve("witness_injectivity_premise_satisfiable(same address twice)", A == A2, z3.Or(*inj)), expect="sat"))
        recs.pop(-2)
        # exactly one bank selected from reset for every address
        one = []
        for n in range(nb):
            for m_ in range(n + 1, nb):
                one.append(z3.And(sel1r[n] == 1, sel1r[m_] == 1))
        solve("at_most_one_bank_selected", z3.Or(*one) if one else z3.BoolVal(False))
        # field placement: consecutive addresses walk columns, then (alignment block), then banks, then rows
        # checked on the crossbar terms: bank field and rca against the oracle was done above; here the walk itself
        An = A + 1
        o_bank_n = _ex(An, shift + bt, shift)
        o_col_n = _ex(An, cs, 0)
        walk_bad = z3.Or(
            z3.And(o_col_idx != z3.BitVecVal(2**cs - 1, cs), z3.Or(o_col_n != o_col_idx + 1, o_bank_n != o_bank)),
        )
        solve("oracle_walk_columns_first(sanity of the reference)", walk_bad)
    except Exception as e:
        import traceback
        recs.append(dict(q="encode", result="unknown", s=0.0, detail="%r\n%s" % (e, traceback.format_exc())))
    return label, g, recs, time.time() - t00


def _replay_model(g, q, model):
    """re-evaluate a comb counterexample on migen's Evaluator: set all registers/inputs from the model and
    report the code's outputs next to the oracle's"""
    from vlib.fhdl2smt import Design, RefSim
    from vlib.corebench import port_inputs
    core, align, dw, bba_v = _build(*g)
    d = Design(core, inputs=list(port_inputs(core.ports).values()))
    init = {}
    for r in d.regs:
        v = model.get("T!" + d.sig_name(r))
        if v is not None:
            init[r] = v
    sim = RefSim(d, init=init)
    port = core.ports[0]
    a = model.get("A", 0)
    sim.set_inputs({port.cmd.addr: a, port.cmd.valid: 1})
    out = {}
    ctrl = core.controller
    memtype, nph, bankbits, rowbits, colbits, nranks, bba = g
    nb = 2**bankbits * nranks
    for n in range(nb):
        b = getattr(ctrl.interface, "bank%d" % n)
        out["bank%d" % n] = dict(valid=sim.get(b.valid), addr=sim.get(b.addr))
    return dict(address=a, outputs=out)


def replay_custom(data):
    g = tuple(data["geometry"])
    r = _replay_model(g, data["goal"], data["model"])
    print("replay on migen Evaluator:", r)
    print("VIOLATION property=C06 replay=<this file> (re-evaluated)")
    return 1


BENCHES = {}


def run(ctx):
    ctx.assume("address mapping ROW_BANK_COL (the only mapping the crossbar implements)")
    ctx.assume("FIFO/buffer transport between crossbar and bank machine is data-transparent (C01's subject); "
               "terms are composed at that register boundary")
    ctx.assume("bank machine queries hold for ANY register state (free FSM/FIFO/timer registers)")
    geoms = _geoms(ctx.tier)
    ctx.extra["geometries"] = len(geoms)
    ctxm = multiprocessing.get_context("fork")
    nq = 0
    with cf.ProcessPoolExecutor(max_workers=ctx.jobs_n, mp_context=ctxm) as ex:
        for label, g, recs, secs in ex.map(geom_job, geoms, chunksize=1):
            for r in recs:
                nq += 1
                ql = "%s:%s" % (label, r["q"])
                ok = ctx.oblige(ql, r["result"], r["s"], detail=r.get("detail"), expect=r.get("expect", "unsat"),
                                sample=dict(geometry=label, query=r["q"], result=r["result"]) if nq % 37 == 1 else None)
                if r.get("expect") == "sat":
                    if r["result"] != "sat":
                        ctx.inconclusive.append("%s: witness not satisfiable (vacuity guard)" % ql)
                    continue
                if r["result"] == "sat":
                    try:
                        rp = _replay_model(g, r["q"], r.get("model", {}))
                    except Exception as e:
                        rp = "replay failed: %r" % (e,)
                    path = ctx.write_replay(label, r["q"].split("(")[0], dict(geometry=list(g), model=r.get("model"), reevaluated=rp,
                                                                            detail=r.get("detail")))
                    ctx.violation(label, r["q"].split("(")[0], path)
    ctx.states = max(ctx.states, 1)
