"""C11 -- Avalon-MM port: bursts and single accesses keep memory semantics."""
from functools import partial
from migen import *
from litedram.common import LiteDRAMNativePort
from vlib import bmc, memstub, monitors
from checks.c12 import _bad_adder

FILES = ["litedram/frontend/avalon.py", "litedram/frontend/adapter.py"]
LEVEL = "model_checking"
TECHNIQUE = ("bounded model checking (z3 QF_BV) of the elaborated real LiteDRAMAvalonMM2Native (FSM, command/data FIFOs, optional "
             "width converter) between a free Avalon-MM master (legal behaviour only) and a nondeterministic in-order memory stub; "
             "one watched byte tracked exactly on both sides; replay on migen.sim")
EXPLANATION = ("address/burstcount/byteenable/read/write/writedata are free per cycle under the Avalon-MM rules (request held while "
               "waitrequest, burst write beats with arbitrary idle gaps, burstcount 1..max).  A monitor follows the accepted beats "
               "with its own address/beat counters: every accepted write beat updates a reference byte (symbolic address and lane) "
               "under its own byte enable; every read burst of n must produce exactly n readdatavalid beats whose watched byte equals "
               "the reference; the number of native write data beats never exceeds the accepted write beats, and once all accepted "
               "beats have reached the memory the memory's byte equals the reference.")


def av_bench(name, av_dw=32, port_dw=32, max_burst=4, base=0, aw_native=4, gaps=False, progress=None):
    from litex.soc.interconnect import avalon
    from litedram.frontend.avalon import LiteDRAMAvalonMM2Native
    ratio_up = port_dw // av_dw if port_dw > av_dw else 1
    ratio_down = av_dw // port_dw if av_dw > port_dw else 1
    aw_av = aw_native + (log2_int(ratio_up) if ratio_up > 1 else 0) - (log2_int(ratio_down) if ratio_down > 1 else 0)
    av = avalon.AvalonMMInterface(data_width=av_dw, adr_width=aw_av + 2)
    port = LiteDRAMNativePort("both", aw_native, port_dw)

    class Top(Module):
        pass
    top = Top()
    top.submodules.dut = LiteDRAMAvalonMM2Native(av, port, max_burst_length=max_burst, base_address=base)
    avb, nb = av_dw // 8, port_dw // 8
    off_words = base >> log2_int(av_dw // 8)
    WA = Signal(aw_av, name_override="WA")
    WL = Signal(max=max(avb, 2), name_override="WL")
    mem = Signal(8, name_override="mem_byte")
    ref = Signal(8, name_override="ref_byte")
    na = Signal(aw_native)
    nl = Signal(max=max(nb, 2))
    if ratio_up > 1:
        top.comb += [na.eq(WA[log2_int(ratio_up):]), nl.eq(WA[:log2_int(ratio_up)] * avb + WL)]
    elif ratio_down > 1:
        top.comb += [na.eq(WA * ratio_down + (WL >> log2_int(nb) if nb > 1 else WL)), nl.eq(WL[:log2_int(nb)] if nb > 1 else 0)]
    else:
        top.comb += [na.eq(WA), nl.eq(WL)]
    stub = memstub.NativeMemStub(port, na, nl, mem, depth=3)
    top.submodules.stub = stub
    inputs = {"address": av.address, "burstcount": av.burstcount, "byteenable": av.byteenable, "read": av.read, "write": av.write,
              "writedata": av.writedata}
    inputs.update(stub.inputs)
    assumes = {}
    bads = dict(stub.bads)
    bad = _bad_adder(top, bads)

    def asm(n, e):
        s = Signal(name_override="asm_" + n)
        top.comb += s.eq(e)
        assumes[n] = s
    req = Signal()
    top.comb += req.eq(av.read | av.write)
    # held while waitrequest
    pl_sigs = (av.read, av.write, av.address, av.burstcount, av.byteenable, av.writedata)
    pl = [Signal(len(x)) for x in pl_sigs]
    p_wait = Signal()
    top.sync += [p_wait.eq(req & av.waitrequest)] + [q.eq(x) for q, x in zip(pl, pl_sigs)]
    asm("request_held_while_waitrequest", ~p_wait | monitors.all_([q == x for q, x in zip(pl, pl_sigs)]))
    asm("not_read_and_write", ~(av.read & av.write))
    # burst bookkeeping (independent of the DUT's counters)
    w_rem = Signal(9)        # remaining beats of the write burst in progress (after the first accepted beat)
    w_addr = Signal(aw_av + 2)
    r_rem = Signal(9)        # outstanding read beats
    r_addr = Signal(aw_av + 2)
    wacc = Signal()
    racc = Signal()
    top.comb += [wacc.eq(av.write & ~av.waitrequest), racc.eq(av.read & ~av.waitrequest)]
    first_w = Signal()
    top.comb += first_w.eq(wacc & (w_rem == 0))
    cur_w_addr = Signal(aw_av + 2)
    top.comb += cur_w_addr.eq(Mux(w_rem == 0, av.address, w_addr))
    top.sync += [
        If(wacc,
            If(w_rem == 0, w_rem.eq(Mux(av.burstcount > 1, av.burstcount - 1, 0)), w_addr.eq(av.address + 1)
            ).Else(w_rem.eq(w_rem - 1), w_addr.eq(w_addr + 1))),
        If(racc, r_rem.eq(Mux(av.burstcount > 1, av.burstcount, 1)), r_addr.eq(av.address)
        ).Elif(av.readdatavalid & (r_rem != 0), r_rem.eq(r_rem - 1), r_addr.eq(r_addr + 1)),
    ]
    asm("legal_burstcount", ~req | ((av.burstcount >= 1) & (av.burstcount <= max_burst)))
    asm("inside_a_write_burst_only_write_beats_are_presented", ~((w_rem != 0) & av.read))
    if not gaps:
        asm("no_idle_gap_inside_a_write_burst", ~(w_rem != 0) | av.write)
    asm("addresses_inside_window", ~req | ((av.address >= off_words) & (av.address + av.burstcount <= off_words + 2**aw_av)))
    asm("watched_lane_in_range", WL < avb)
    hitw = (cur_w_addr - off_words)[:aw_av] == WA
    top.sync += If(wacc & hitw & memstub.bit_of(av.byteenable, WL, avb), ref.eq(memstub.byte_of(av.writedata, WL, avb)))
    rhit = (r_addr - off_words)[:aw_av] == WA
    bad("readdatavalid_without_outstanding_read_beat", av.readdatavalid & (r_rem == 0) & ~racc)
    bad("read_beat_returns_other_than_last_written_byte", av.readdatavalid & (r_rem != 0) & rhit & (memstub.byte_of(av.readdata, WL, avb) != ref))
    bad("request_accepted_while_read_beats_outstanding", (wacc | racc) & (r_rem != 0) & ~(av.readdatavalid & (r_rem == 1)))
    # write beats reach the memory exactly once
    acc_beats = Signal(8)
    nat_w = Signal(8)
    top.sync += [If(wacc, acc_beats.eq(acc_beats + 1)), If(stub.resp_w, nat_w.eq(nat_w + 1))]
    if ratio_down == 1 and ratio_up == 1:
        bad("more_native_write_beats_than_accepted_avalon_beats", nat_w + stub.resp_w > acc_beats + wacc)
        bad("memory_byte_differs_from_reference_after_all_accepted_beats_were_written",
            (nat_w == acc_beats) & ~wacc & (stub.level == 0) & (mem != ref))
    if progress:
        # no hang: with a memory that never stalls (accepts at once, answers as soon as its latency allows) a presented request is
        # not kept waiting longer than `progress` cycles (generous: one maximal burst in each direction plus the memory latency)
        asm("memory_never_stalls", ~stub.inputs["stub_cmd_stall"] & stub.inputs["stub_resp_go"])
        wcnt = Signal(max=progress + 4)
        top.sync += If(req & av.waitrequest, If(wcnt <= progress, wcnt.eq(wcnt + 1))).Else(wcnt.eq(0))
        bad("request_kept_waiting_although_memory_never_stalls", wcnt > progress)
    covers = {}

    def cov(n, e):
        s = Signal()
        top.comb += s.eq(e)
        covers[n] = s
    sw = monitors.Sticky(wacc & hitw & memstub.bit_of(av.byteenable, WL, avb) & (w_rem != 0))
    top.submodules += sw
    cov("watched_byte_read_back_in_a_burst_after_burst_write", av.readdatavalid & (r_rem != 0) & rhit & sw.out)
    b = bmc.Bench(name, top, inputs, consts={"WA": WA, "WL": WL}, free_init={"mem_byte": mem, "ref_byte": ref},
                  init_assume=[mem == ref], assumes=assumes, bads=bads, covers=covers,
                  info=dict(av_dw=av_dw, port_dw=port_dw, max_burst=max_burst, base=base))
    b.watch = {"rd": av.read, "wr": av.write, "adr": av.address, "bc": av.burstcount, "be": av.byteenable, "wd": av.writedata,
               "wait": av.waitrequest, "rdv": av.readdatavalid, "rdd": av.readdata, "n_v": port.cmd.valid, "n_r": port.cmd.ready,
               "n_we": port.cmd.we, "n_a": port.cmd.addr, "mem": mem, "ref": ref, "w_rem": w_rem, "r_rem": r_rem}
    return b


CONFIGS = {
    "gaps_equal_32_b4": (dict(av_dw=32, port_dw=32, max_burst=4, gaps=True), 20, 24, "qt"),
    "equal_32_b4": (dict(av_dw=32, port_dw=32, max_burst=4), 20, 30, "qt"),
    "equal_32_b2_base": (dict(av_dw=32, port_dw=32, max_burst=2, base=0x14), 20, 28, "qt"),
    "progress_equal_32_b4": (dict(av_dw=32, port_dw=32, max_burst=4, progress=14), 22, 30, "qt"),
    "progress_equal_32_b2": (dict(av_dw=32, port_dw=32, max_burst=2, progress=12), 0, 28, "t"),
    "wide_32_on_16": (dict(av_dw=32, port_dw=16, max_burst=2), 0, 24, "t"),
    "narrow_16_on_32": (dict(av_dw=16, port_dw=32, max_burst=2), 0, 24, "t"),
}
BENCHES = {n: partial(av_bench, n, **c[0]) for n, c in CONFIGS.items()}


def run(ctx):
    ctx.assume("Avalon master: request (read/write/address/burstcount/byteenable/writedata) held while waitrequest; burstcount "
               "1..max_burst_length; write-burst beats may be separated by idle cycles; no read presented inside a write burst")
    ctx.assume("benches without the 'gaps_' prefix: no idle cycle between the beats of a write burst (see the known finding)")
    ctx.assume("'progress_' benches: the memory stub never stalls; a request must not wait longer than 12-14 cycles (no-hang clause)")
    ctx.assume("memory: in-order native stub with the real crossbar's pulse semantics, arbitrary stalls, latency >= 2, <= 3 queued")
    for n, (kw, kq, kt, tiers) in CONFIGS.items():
        if ctx.only and not ctx.only.search(n):
            continue
        if n.startswith("progress"):
            ctx.add(n, kq if ctx.tier == "quick" else kt, timeout=900, min_K=(kq or 22) - 2, chunk=4, cover_required=False,
                    bads=["request_kept_waiting_although_memory_never_stalls"])
            continue
        if ctx.tier == "quick" and "q" in tiers:
            ctx.add(n, kq, timeout=900, min_K=kq - 4, first_chunk=12, chunk=1, cover_required=False)
        elif ctx.tier == "thorough":
            ctx.add(n, kt, timeout=3300, min_K=(kq or 18) - 4, first_chunk=12, chunk=1, cover_required=False)
    ctx.run()
