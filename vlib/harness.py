"""Check harness: tiers, parallel bench building + query solving, replay, known findings,
evidence files, exit codes.

exit 0 : every obligation discharged (violation queries unsat, witnesses sat+replayed)
exit 1 : a violation that replays on the real Migen evaluation and is not a listed known finding
exit 2 : inconclusive (solver unknown/timeout, witness unreachable, translator mismatch,
         model that does not replay) -- never reported as success
"""
import argparse
import collections
import hashlib
import importlib
import json
import multiprocessing
import os
import re
import sys
import time
import traceback
import concurrent.futures as cf

VERIF = os.path.dirname(os.path.dirname(os.path.abspath(__file__)))
REPO = os.environ.get("VERIF_REPO", "/repo")


def _setup_paths():
    for p in (VERIF, REPO):
        if p in sys.path:
            sys.path.remove(p)
    sys.path.insert(0, VERIF)
    sys.path.insert(0, REPO)


def patch_litex_csr_names():
    """LiteX cannot recover CSR variable names under Python 3.12 in this sandbox
    (get_obj_var_name returns None).  Names only; harness process only."""
    try:
        import litex.soc.interconnect.csr as csr
        import litex.gen.fhdl.module  # noqa
    except Exception:
        return False
    orig = csr.get_obj_var_name
    counter = [0]

    def wrapped(*a, **k):
        try:
            r = orig(*a, **k)
        except Exception:
            r = None
        if r is None:
            counter[0] += 1
            r = "csr%d" % counter[0]
        return r
    csr.get_obj_var_name = wrapped
    # the pinned litedram uses CSR.wr_stb / rd_stb (newer LiteX); the LiteX in this sandbox only has re / we.
    # Alias them (write strobe = re, read strobe = we) so that dfii.py / ecc.py can be elaborated at all.
    if not getattr(csr.CSR, "_verif_shim", False):
        orig_init = csr.CSR.__init__

        def csr_init(self, *a, **k):
            orig_init(self, *a, **k)
            if not hasattr(self, "wr_stb"):
                self.wr_stb = self.re
            if not hasattr(self, "rd_stb"):
                self.rd_stb = self.we
        csr.CSR.__init__ = csr_init
        csr.CSR._verif_shim = True
    return True


# ---- stage 1: build a bench, validate the translator on it, unroll it ---------------------------

def _stage1(modname, bench_name, job):
    _setup_paths()
    from vlib import bmc
    t0 = time.time()
    out = {"bench": bench_name, "error": None}
    try:
        mod = importlib.import_module(modname)
        bench = mod.BENCHES[bench_name]()
        out["state_bits"] = bench.state_bits()
        out["nregs"] = len(bench.design.regs)
        out["ncomb"] = len(bench.design.comb_targets)
        out["info"] = bench.info
        out["bads"] = list(bench.bads.keys())
        out["covers"] = list(bench.covers.keys())
        out["assumes"] = list(bench.assumes.keys())
        out["inputs"] = {n: len(s) for n, s in bench.inputs.items()}
        out["consts"] = {n: len(s) for n, s in bench.consts.items()}
        out["free_init"] = {n: len(s) for n, s in bench.free_init.items()}
        t1 = time.time()
        dv = job.get("diff_cycles", 10)
        if dv:
            n, mm = bmc.diff_validate(bench, ncycles=dv, seed=job.get("seed", 0), max_comb=job.get("diff_max_comb", 150))
            out["diff_compared"], out["diff_mismatches"] = n, mm
            out["diff_cycles"] = dv
        else:
            out["diff_compared"], out["diff_mismatches"], out["diff_cycles"] = 0, [], 0
        t2 = time.time()
        K = job["K"]
        u = bmc.Unrolled(bench, K, free_all=False)
        out["text"] = u.text()
        out["K"] = K
        if job.get("induction"):
            k = job["induction"]
            ui = bmc.Unrolled(bench, k, free_all=True)
            out["ind_text"] = ui.text()
        out["times"] = {"elab": t1 - t0, "diff": t2 - t1, "unroll": time.time() - t2}
    except Exception as e:
        out["error"] = "%s: %s\n%s" % (type(e).__name__, e, traceback.format_exc())
    return out


class _TextHolder:
    def __init__(self, text):
        self._t = text

    def text(self):
        return self._t


def _solve(text, clauses, negs, timeout_s, tactic=None):
    from vlib import bmc
    return bmc._worker((0, text, clauses, negs, int(timeout_s * 1000) if timeout_s else 0, tactic != "py", tactic))


class Ctx:
    def __init__(self, prop, modname, tier, seed, files=()):
        self.prop = prop
        self.modname = modname
        self.tier = tier
        self.seed = seed
        self.t0 = time.time()
        self.jobs = collections.OrderedDict()
        self._chains = {}
        self.deep_budget = float(os.environ.get("VERIF_DEEP_BUDGET", "600"))   # s of wall time during which deep queries are started
        self.records = []       # query records (evidence)
        self.bench_records = {}
        self.violations = []    # confirmed, not known
        self.known_hits = []
        self.inconclusive = []
        self.notes = []
        self.assumptions = []
        self.samples = []
        self.replayed = 0
        self.diff_compared = 0
        self.extra = {}
        self.files = list(files)
        self.obligations = 0
        self.discharged = 0
        self.states = 0
        self.transitions = 0
        self._bench_cache = {}
        self.jobs_n = int(os.environ.get("VERIF_JOBS", "0")) or min(16, os.cpu_count() or 1)
        kf = os.path.join(VERIF, "known_findings.json")
        self.known = json.load(open(kf))["findings"] if os.path.exists(kf) else []

    # -- registration ---------------------------------------------------------------------------
    def add(self, bench_name, K, chunk=None, timeout=None, induction=None, diff_cycles=10,
            cover_required=True, expect=None, bads=None, min_K=None, **kw):
        """BMC job.  chunk: number of frames per violation query (None: all frames in one query
        per bad signal)."""
        if self.tier == "thorough":
            # keep a thorough run bounded: frames up to the floor depth get at most 15 minutes per query, deeper frames are
            # explored in order with 300 s each (started only during the first 10 minutes) and reported as the depth reached
            timeout = min(timeout or 900, 900)
            kw.setdefault("deep_timeout", 300)
            if min_K is not None and (chunk is None or chunk > 2):
                chunk = 2
        self.jobs[bench_name] = dict(K=K, chunk=chunk, timeout=timeout, induction=induction,
                                     diff_cycles=diff_cycles, cover_required=cover_required, seed=self.seed,
                                     only_bads=bads, min_K=min_K, **kw)

    def oblige(self, label, result, secs=0.0, expect="unsat", detail=None, sample=None):
        """record a directly solved obligation (combinational / arithmetic queries).
        result: 'unsat' | 'sat' | 'unknown'.  Returns True when discharged."""
        self.obligations += 1
        rec = dict(bench=label, kind="obligation", result=result, expect=expect, solver_s=round(secs, 3))
        if detail is not None:
            rec["detail"] = detail
        self.records.append(rec)
        if result == "unknown":
            self.inconclusive.append("obligation %s: solver unknown" % label)
            return False
        if result == expect:
            self.discharged += 1
            if sample is not None and len(self.samples) < 8:
                self.samples.append(sample)
            return True
        return False

    def violation(self, label, goal, path, known=None):
        """register a replay-confirmed violation found by a custom (non-BMC) query"""
        kf = self.known_finding(label, goal)
        if kf:
            self.known_hits.append((kf, label, goal, path))
            self.discharged += 1
        else:
            self.violations.append((label, goal, -1, path))

    def write_replay(self, label, goal, payload):
        os.makedirs(os.path.join(VERIF, "replays"), exist_ok=True)
        path = os.path.join(VERIF, "replays", "%s_%s_%s.json" % (self.prop, re.sub(r"[^A-Za-z0-9_.-]", "_", label), goal))
        payload = dict(payload, property=self.prop, module=self.modname, custom=True, label=label, goal=goal)
        with open(path, "w") as f:
            json.dump(payload, f, indent=1, default=str)
        return path

    def assume(self, text):
        if text not in self.assumptions:
            self.assumptions.append(text)

    def note(self, text):
        self.notes.append(text)

    def bench(self, name):
        b = self._bench_cache.get(name)
        if b is None:
            mod = importlib.import_module(self.modname)
            b = mod.BENCHES[name]()
            self._bench_cache[name] = b
        return b

    # -- known findings -------------------------------------------------------------------------
    def known_finding(self, bench_name, bad):
        for f in self.known:
            if f.get("status") != "known" or f.get("property") != self.prop:
                continue
            if re.fullmatch(f.get("bench", ".*"), bench_name) and re.fullmatch(f.get("bad", ".*"), bad):
                return f
        return None

    # -- running --------------------------------------------------------------------------------
    def run(self):
        ctxm = multiprocessing.get_context("fork")
        pending = {}
        with cf.ProcessPoolExecutor(max_workers=self.jobs_n, mp_context=ctxm) as ex:
            for bn, job in self.jobs.items():
                pending[ex.submit(_stage1, self.modname, bn, job)] = ("stage1", bn, None)
            while pending:
                done, _ = cf.wait(list(pending.keys()), return_when=cf.FIRST_COMPLETED)
                for fut in done:
                    kind, bn, q = pending.pop(fut)
                    try:
                        res = fut.result()
                    except Exception as e:
                        self.inconclusive.append("%s %s: worker died: %r" % (kind, bn, e))
                        continue
                    if kind == "stage1":
                        for q2 in self._after_stage1(bn, res):
                            f2 = ex.submit(_solve, q2["text"], q2["clauses"], q2["negs"], q2["timeout"], q2.get("tactic"))
                            pending[f2] = ("query", bn, q2)
                    else:
                        self._after_query(bn, q, res)
                        nxt = self._next_deep(bn, q, res[0])
                        if nxt is not None:
                            f2 = ex.submit(_solve, nxt["text"], nxt["clauses"], nxt["negs"], nxt["timeout"], nxt.get("tactic"))
                            pending[f2] = ("query", bn, nxt)

    def _cross_check_queries(self, bn, qs):
        """thorough tier: the cheapest-looking violation query of each bench (shallow frames) is re-decided by the second
        engine (z3 5.1 wheel, explicit bit-blast/aig/sat pipeline); a disagreement (not a timeout) is inconclusive"""
        if self.tier != "thorough":
            return []
        cand = [q for q in qs if q["kind"] == "violation" and q["lo"] == 0]
        if not cand:
            return []
        q = dict(cand[0])
        q["kind"] = "cross_check"
        q["tactic"] = "py"
        q["timeout"] = 300
        q["required"] = False
        return [q]

    def _after_stage1(self, bn, res):
        job = self.jobs[bn]
        if res["error"]:
            self.inconclusive.append("bench %s: cannot encode: %s" % (bn, res["error"]))
            return []
        text = res.pop("text")
        ind_text = res.pop("ind_text", None)
        self.bench_records[bn] = res
        self.diff_compared += res["diff_compared"]
        if res["diff_mismatches"]:
            self.inconclusive.append("bench %s: translator validation mismatch: %s" % (bn, res["diff_mismatches"][:3]))
            return []
        K = res["K"]
        self.states += res["state_bits"] * (K + 1)
        self.transitions += K
        qs = []
        chunk = job["chunk"] or (K + 1)
        min_K = job.get("min_K")
        for bad in res["bads"]:
            if job["only_bads"] and bad not in job["only_bads"]:
                continue
            if job.get("skip_bads") and re.search(job["skip_bads"], bad):
                continue
            if min_K is not None and min_K < K:
                # frames 0..min_K must be decided; deeper frames are explored in chunks under the time budget and the
                # depth actually discharged is reported (a timeout there is a stated bound, not a pass and not a failure)
                first = job.get("first_chunk")   # frames 0..first_chunk in one query (cheap shallow part), then `chunk` frames each
                ranges = []
                lo = 0
                if first is not None:
                    ranges.append((0, min(first, K), True))
                    lo = min(first, K) + 1
                elif chunk >= K + 1:
                    ranges.append((0, min_K, True))
                    lo = min_K + 1
                while lo <= K:
                    hi = min(K, lo + chunk - 1)
                    ranges.append((lo, hi, hi <= min_K))
                    lo = hi + 1
            else:
                ranges = [(lo, min(K, lo + chunk - 1), True) for lo in range(0, K + 1, chunk)]
            chain = []
            for lo, hi, required in ranges:
                q = dict(kind="violation", name=bad, lo=lo, hi=hi, text=text, required=required,
                         clauses=[["V!%s!%d" % (bad, t) for t in range(lo, hi + 1)]], negs=[],
                         timeout=job["timeout"] if required else job.get("deep_timeout", job["timeout"]))
                if self.tier == "thorough" and not required:
                    chain.append(q)     # deep frames: one query after the other, stopping at the first timeout (see _next_deep)
                else:
                    qs.append(q)
            if chain:
                self._chains[(bn, bad)] = chain[1:]
                qs.append(chain[0])
        for cov in res["covers"]:
            qs.append(dict(kind="cover", name=cov, lo=0, hi=K, text=text,
                           clauses=[["COV!%s!%d" % (cov, t) for t in range(0, K + 1)]], negs=[],
                           timeout=job["timeout"]))
        if ind_text is not None:
            k = job["induction"]
            bads = res["bads"]
            qs.append(dict(kind="induction_step", name="all", lo=k, hi=k, text=ind_text,
                           clauses=[["RAWBAD!%s!%d" % (b, k) for b in bads], ["OK!%d" % k]],
                           negs=["RAWBAD!%s!%d" % (b, t) for b in bads for t in range(k)],
                           timeout=job["timeout"]))
        self.obligations += len(qs)
        self._xq = getattr(self, "_xq", {})
        xs = self._cross_check_queries(bn, qs)
        for x in xs:
            self._xq[(bn, x["name"], x["lo"], x["hi"])] = None
        return qs + xs

    def _next_deep(self, bn, q, result):
        """thorough tier: deep frames of one monitor are explored in order; the chain stops at the first query that is not unsat or
        when the wall budget for starting deep queries is used up; what is left is recorded as not discharged (stated bound)"""
        rest = self._chains.get((bn, q["name"]))
        if not rest or q.get("required", True) or q["kind"] != "violation":
            return None
        if result == "unsat" and time.time() - self.t0 < self.deep_budget:
            nxt = rest.pop(0)
            self.obligations += 1
            return nxt
        for r in rest:
            self.bench_records[bn].setdefault("undischarged_deep_frames", []).append([r["name"], r["lo"], r["hi"]])
        self._chains[(bn, q["name"])] = []
        return None

    def _after_query(self, bn, q, res):
        result, secs, model, reason = res
        rec = dict(bench=bn, kind=q["kind"], goal=q["name"], frames=[q["lo"], q["hi"]], result=result,
                   solver_s=round(secs, 3))
        if os.environ.get("VERIF_PROGRESS"):
            print("[%6.1fs] %s %s %s %s %s %.1fs" % (time.time() - self.t0, bn, q["kind"], q["name"][:50], [q["lo"], q["hi"]], result, secs),
                  file=sys.stderr, flush=True)
        job = self.jobs[bn]
        if q["kind"] == "cross_check":
            rec["engine"] = "z3 5.1 wheel: simplify/propagate-values/solve-eqs/elim-uncnstr/bit-blast/aig/sat"
            self.records.append(rec)
            self._xq[(bn, q["name"], q["lo"], q["hi"])] = result
            return
        key = (bn, q["name"], q["lo"], q["hi"])
        if q["kind"] == "violation" and key in getattr(self, "_xq", {}):
            self._xq_main = getattr(self, "_xq_main", {})
            self._xq_main[key] = result
        if result == "unknown" and q["kind"] == "violation" and not q.get("required", True):
            rec["reason"] = reason
            rec["note"] = "beyond the floor depth: not discharged within the time budget (stated bound)"
            self.bench_records[bn].setdefault("undischarged_deep_frames", []).append([q["name"], q["lo"], q["hi"]])
            self.obligations -= 1
        elif result == "unknown":
            rec["reason"] = reason
            self.inconclusive.append("bench %s %s %s frames %d..%d: solver unknown (%s)" % (
                bn, q["kind"], q["name"], q["lo"], q["hi"], reason))
        elif q["kind"] == "violation":
            if result == "unsat":
                self.discharged += 1
            else:
                self._handle_violation(bn, q, model, rec)
        elif q["kind"] == "cover":
            if result == "sat":
                ok, why = self._replay_goal(bn, "COV", q, model, rec)
                if ok:
                    self.discharged += 1
                else:
                    self.inconclusive.append("bench %s cover %s: witness does not replay: %s" % (bn, q["name"], why))
            else:
                if job["cover_required"]:
                    self.inconclusive.append("bench %s: reachability witness '%s' is unreachable within %d frames "
                                             "(vacuity guard)" % (bn, q["name"], q["hi"]))
                else:
                    rec["note"] = "optional witness unreachable"
                    self.discharged += 1
        elif q["kind"] == "induction_step":
            if result == "unsat":
                rec["note"] = "k-induction step closed: claim unbounded in time for this configuration"
                self.discharged += 1
                self.bench_records[bn]["induction_closed"] = True
            else:
                rec["note"] = ("k-induction step not closed (start state may be unreachable); "
                               "claim stays bounded by the BMC depth")
                self.bench_records[bn]["induction_closed"] = False
                self.discharged += 1
        self.records.append(rec)

    def _find_frame(self, kind, q, model):
        for t in range(q["lo"], q["hi"] + 1):
            if model.get("%s!%s!%d" % (kind, q["name"], t)):
                return t
        return None

    def _replay_goal(self, bn, kind, q, model, rec):
        from vlib import bmc
        bench = self.bench(bn)
        t = self._find_frame(kind, q, model)
        if t is None:
            return False, "model does not set the goal"
        stim = bmc.model_to_stimulus(bench, model, t)
        ok, recs, why = bmc.replay_confirms(bench, stim, kind, q["name"], t, watch=getattr(bench, "watch", None))
        rec["frame"] = t
        rec["replayed"] = ok
        if ok:
            self.replayed += 1
            if len(self.samples) < 6:
                self.samples.append(dict(bench=bn, kind=q["kind"], goal=q["name"], frame=t,
                                         stimulus=_compact(stim, 12)))
        rec["_stim"] = stim
        rec["_recs"] = recs
        return ok, why

    def _handle_violation(self, bn, q, model, rec):
        ok, why = self._replay_goal(bn, "V", q, model, rec)
        stim = rec.pop("_stim", None)
        recs = rec.pop("_recs", None)
        if not ok:
            self.inconclusive.append("bench %s violation %s: solver model does NOT replay on migen.sim (%s): "
                                     "encoding/oracle mismatch" % (bn, q["name"], why))
            return
        os.makedirs(os.path.join(VERIF, "replays"), exist_ok=True)
        path = os.path.join(VERIF, "replays", "%s_%s_%s.json" % (self.prop, bn, q["name"]))
        with open(path, "w") as f:
            json.dump(dict(property=self.prop, module=self.modname, bench=bn, goal=q["name"], frame=rec["frame"],
                           stimulus=stim, watch=[r.get("watch") for r in (recs or [])]), f, indent=1)
        rec["replay"] = path
        kf = self.known_finding(bn, q["name"])
        if kf:
            rec["known_finding"] = kf["id"]
            self.known_hits.append((kf, bn, q["name"], path))
            self.discharged += 1
        else:
            self.violations.append((bn, q["name"], rec["frame"], path))

    def _check_cross(self):
        if getattr(self, "_cross_done", False):
            return
        self._cross_done = True
        n = 0
        for key, second in getattr(self, "_xq", {}).items():
            first = getattr(self, "_xq_main", {}).get(key)
            if first in ("sat", "unsat") and second in ("sat", "unsat"):
                n += 1
                if first != second:
                    self.inconclusive.append("bench %s goal %s: the two solvers disagree (%s vs %s)" % (key[0], key[1], first, second))
        self.extra["second_solver_agreements"] = n

    def finish_records(self):
        self._check_cross()
        for r in self.records:
            r.pop("_stim", None)
            r.pop("_recs", None)
        # deepest frame up to which every violation query of a bench was discharged
        for bn, br in self.bench_records.items():
            und = br.get("undischarged_deep_frames")
            if "K" in br:
                br["depth_discharged_all_monitors"] = min([lo - 1 for _, lo, hi in und]) if und else br["K"]

    # -- evidence ------------------------------------------------------------------------------
    def write_evidence(self, level="model_checking", explanation=None, technique=None):
        self.finish_records()
        import z3
        evdir = os.path.join(VERIF, "evidence") if REPO == "/repo" else os.path.join(VERIF, "scratch", "evidence_alt_repo")
        os.makedirs(evdir, exist_ok=True)
        files = {}
        for f in self.files:
            p = os.path.join(REPO, f)
            if os.path.exists(p):
                files[f] = hashlib.sha256(open(p, "rb").read()).hexdigest()[:16]
        solver_time = round(sum(r.get("solver_s", 0) for r in self.records), 2)
        cov = dict(
            states=max(1, self.states), transitions=max(1, self.transitions),
            traces_validated_against_impl=self.replayed + (1 if self.diff_compared else 0),
            samples=self.samples or [dict(note="no witness samples", queries=self.records[:3])],
            obligations=self.obligations, discharged=self.discharged,
            explanation=explanation or "",
            states_meaning="state bits x frames encoded, summed over benches (symbolic, not enumerated)",
            transitions_meaning="unrolled clock steps summed over benches",
            translator_validation_signal_comparisons=self.diff_compared,
            benches=self.bench_records, queries=self.records,
            solver_time_s=solver_time, solver=_solver_versions(),
            source_sha256_16=files, technique=technique or "",
            notes=self.notes, known_findings_hit=[k[0]["id"] for k in self.known_hits],
            inconclusive=self.inconclusive,
        )
        cov.update(self.extra)
        ev = dict(property_id=self.prop, tier=self.tier, seed=self.seed, level=level, coverage=cov,
                  assumptions=self.assumptions, wall_s=round(time.time() - self.t0, 2),
                  violations=len(self.violations))
        path = os.path.join(evdir, "%s.json" % self.prop)
        tmp = path + ".tmp"
        with open(tmp, "w") as f:
            json.dump(ev, f, indent=1, default=str)
        os.replace(tmp, path)
        return path

    def verdict(self):
        self._check_cross()
        by_id = collections.OrderedDict()
        for kf, bn, bad, path in self.known_hits:
            e = by_id.setdefault(kf["id"], dict(kf=kf, sites=[], path=path))
            if (bn, bad) not in e["sites"]:
                e["sites"].append((bn, bad))
        for fid, e in by_id.items():      # one line per listed finding
            print("KNOWN-FINDING: property=%s %s [%s; seen at %s; replay=%s]" % (
                self.prop, e["kf"]["what"], fid, ", ".join("%s/%s" % s_ for s_ in e["sites"][:6]) + (" ..." if len(e["sites"]) > 6 else ""),
                e["path"]))
        first = collections.OrderedDict()
        for bn, bad, t, path in self.violations:    # one line per (bench, monitor): the shallowest frame
            if (bn, bad) not in first or (0 <= t < first[(bn, bad)][0]):
                first[(bn, bad)] = (t, path)
        for (bn, bad), (t, path) in first.items():
            print("VIOLATION property=%s replay=%s  (bench=%s monitor=%s frame=%d)" % (self.prop, path, bn, bad, t))
        for m in self.inconclusive:
            print("INCONCLUSIVE: %s" % m)
        if self.violations:
            return 1
        if self.inconclusive:
            return 2
        print("OK property=%s tier=%s obligations=%d discharged=%d replayed_witnesses=%d wall=%.1fs" % (
            self.prop, self.tier, self.obligations, self.discharged, self.replayed, time.time() - self.t0))
        return 0


def _solver_versions():
    import subprocess
    import z3
    try:
        b = subprocess.run(["/usr/bin/z3", "--version"], stdout=subprocess.PIPE, universal_newlines=True).stdout.strip()
    except Exception:
        b = "z3 binary unavailable"
    return "unrolled BMC queries: %s (binary, QF_BV); direct/comb queries and formula construction: z3 %s python wheel" % (
        b, z3.get_version_string())


def _compact(stim, nframes):
    fr = stim["frames"]
    out = dict(consts=stim["consts"], init=stim["init"], nframes=len(fr))
    out["last_frames"] = [{k: v for k, v in f.items() if v} for f in fr[-nframes:]]
    return out


def replay_file(path):
    """./check <id> --replay file : re-run a stored counterexample on the current tree"""
    _setup_paths()
    from vlib import bmc
    data = json.load(open(path))
    mod = importlib.import_module(data["module"])
    if hasattr(mod, "replay_custom") and data.get("custom"):
        return mod.replay_custom(data)
    bench = mod.BENCHES[data["bench"]]()
    ok, recs, why = bmc.replay_confirms(bench, data["stimulus"], "V", data["goal"], data["frame"],
                                        watch=getattr(bench, "watch", None))
    for t, r in enumerate(recs):
        print("frame %3d bad=%s %s" % (t, {k: v for k, v in r["bad"].items() if v}, r.get("watch", "")))
    print("replay:", why)
    if ok:
        print("VIOLATION property=%s replay=%s" % (data["property"], path))
        return 1
    return 0


def main(argv=None):
    ap = argparse.ArgumentParser()
    ap.add_argument("prop")
    ap.add_argument("--tier", default=os.environ.get("VERIF_TIER", "quick"))
    ap.add_argument("--replay")
    ap.add_argument("--only", help="regex: only benches whose name matches")
    a = ap.parse_args(argv)
    _setup_paths()
    patch_litex_csr_names()
    if a.replay:
        return replay_file(a.replay)
    seed = int(os.environ.get("VERIF_SEED", "0"))
    modname = "checks.%s" % a.prop.lower()
    mod = importlib.import_module(modname)
    ctx = Ctx(a.prop, modname, a.tier, seed, files=getattr(mod, "FILES", ()))
    ctx.only = re.compile(a.only) if a.only else None
    try:
        rc = mod.run(ctx)
    except Exception as e:
        traceback.print_exc()
        ctx.inconclusive.append("harness error: %r" % (e,))
        rc = None
    if rc is None:
        rc = ctx.verdict()
    try:
        ctx.write_evidence(level=getattr(mod, "LEVEL", "model_checking"),
                           explanation=getattr(mod, "EXPLANATION", None),
                           technique=getattr(mod, "TECHNIQUE", None))
    except Exception:
        traceback.print_exc()
        rc = rc or 2
    return rc


if __name__ == "__main__":
    sys.exit(main())
