#!/bin/bash
# usage: run_seeds.sh <seedid:prop[:only]> ...   e.g. C04_1:C04  C05_1:C05:fair_ddr3h
for item in "$@"; do
  IFS=: read sid prop only <<< "$item"
  args=""
  [ -n "$only" ] && args="--only $only"
  out=/verif/scratch/seedrun_${sid}_${prop}.log
  timeout 3000 /verif/scripts/try_seed.sh /verif/seeded/$sid/patch.diff $prop $args > $out 2>&1
  echo "$sid $prop -> $(grep -c '^VIOLATION' $out) violations; $(tail -n 1 $out)" >> /verif/scratch/seedrun_summary.log
done
