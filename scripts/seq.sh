#!/bin/bash
# run commands from stdin one after another (keeps the machine from being oversubscribed)
while IFS= read -r line; do
  [ -z "$line" ] && continue
  echo "=== $(date +%H:%M:%S) $line" >> /verif/scratch/seq.log
  bash -c "$line" >> /verif/scratch/seq.log 2>&1
done
