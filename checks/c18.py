"""C18 -- DFI plumbing is transparent: injector mux (combinational validity) and rate converter (BMC, two clocks)."""
import multiprocessing
import time
from functools import partial
import concurrent.futures as cf
import z3
from migen import *
from migen.genlib.record import DIR_M_TO_S, DIR_S_TO_M

FILES = ["litedram/dfii.py", "litedram/phy/dfi.py", "litedram/phy/utils.py"]
LEVEL = "model_checking"
TECHNIQUE = ("combinational validity + non-interference queries (z3 QF_BV) on the elaborated real DFIInjector with all DFI "
             "signals and all CSR state symbolic; bounded model checking of the real DFIRateConverter over a phase-locked "
             "two-clock schedule with a marked-command monitor; combinational validity of DDR4DFIMux against the JEDEC ACT pin assignment")
EXPLANATION = ("Rate converter: the real DFIRateConverter is unrolled over the phase-locked edge schedule of its two clock domains; "
               "every slow-side command/write signal and every fast-side read signal is a free variable; a monitor keeps what the "
               "slow side presented and requires, for EVERY fast cycle, that each fast phase carries exactly the slow phase "
               "pi+nphases*j of the previous slow cycle, write data/mask as one burst at sub-cycle write_delay (zero elsewhere), and "
               "read data/valid of sub-cycle read_delay on the matching slow phases two slow edges later.  Injector: for every value of every DFI signal and every CSR register state, hardware mode makes each "
               "master-side signal equal to the controller-side one (chip selects replicated in clam-shell mode) and returns "
               "read data unchanged in the same cycle; in software mode two copies that differ only in controller-side inputs "
               "produce identical PHY-side outputs (non-interference).  Rate converter: see benches rc_*.")

INJ_Q = [(1, 1, False), (2, 1, False), (4, 1, False), (4, 2, False), (4, 1, True), (2, 2, True)]
INJ_T = INJ_Q + [(8, 1, False), (4, 2, True), (1, 2, False), (1, 1, True), (8, 2, True)]


def build_inj(nphases, nranks, clam):
    from litedram.dfii import DFIInjector
    return DFIInjector(addressbits=13, bankbits=3, nranks=nranks, databits=16, nphases=nphases, is_clam_shell=clam)


def _fields(iface, direction):
    out = []
    for pi, ph in enumerate(iface.phases):
        for name, size, d in ph.layout:
            if d == direction:
                out.append((pi, name, getattr(ph, name)))
    return out


def csr_state_signals(dut):
    from litex.soc.interconnect.csr import CSRStorage
    out = []
    mods = [dut] + [getattr(dut, "pi%d" % n) for n in range(len(dut.master.phases))]
    for m in mods:
        for k, v in vars(m).items():
            if isinstance(v, CSRStorage):
                out.append(v.storage)
                if hasattr(v, "fields"):
                    for f in v.fields.fields:
                        out.append(getattr(v.fields, f.name))
    return out


def inj_job(cfg):
    from vlib.fhdl2smt import Design
    from vlib import harness
    harness.patch_litex_csr_names()
    nph, nranks, clam = cfg
    label = "injector_p%d_r%d_%s" % (nph, nranks, "clam" if clam else "plain")
    recs = []
    t00 = time.time()
    try:
        dut = build_inj(*cfg)
        ins = [s for _, _, s in _fields(dut.slave, DIR_M_TO_S)] + [s for _, _, s in _fields(dut.master, DIR_S_TO_M)] + \
              [s for _, _, s in _fields(dut.ext_dfi, DIR_M_TO_S)] + [dut.ext_dfi_sel]
        # CSR bus-side strobes of the phase injectors are primary inputs too (software may write at any time)
        extra = []
        for n in range(nph):
            pi = getattr(dut, "pi%d" % n)
            extra += [pi._command_issue.re, pi._command_issue.r, pi._command_issue.we]
        ins += [s for s in extra]
        # CSR storages (and their field views) are not driven without a CSR bank: they are the software-visible state
        # and are left completely free
        ins += csr_state_signals(dut)
        d = Design(dut, inputs=ins)
        sel = d.sig_val(dut._control.fields.sel).t
        assert not z3.is_bv_value(sel), "mode select is not symbolic"
        ext = d._tvars[dut.ext_dfi_sel]

        def solve(q, *cons, expect="unsat"):
            s = z3.Solver()
            s.set("timeout", 300000)
            s.add(*cons)
            t0 = time.time()
            r = str(s.check())
            rec = dict(q=q, result=r, s=round(time.time() - t0, 2), expect=expect)
            if r == "sat":
                m = s.model()
                rec["model"] = {str(x.name()): (m[x].as_long() if z3.is_bv_value(m[x]) else str(m[x])) for x in m.decls()}
            recs.append(rec)
        hw = z3.And(sel == 1, ext == 0)
        bad = []
        slave_m2s = {(pi, n): s for pi, n, s in _fields(dut.slave, DIR_M_TO_S)}
        for pi, n, ms in _fields(dut.master, DIR_M_TO_S):
            mt = d.sig_val(ms).t
            st = d.sig_val(slave_m2s[(pi, n)]).t
            if clam and n == "cs_n":
                st = z3.Concat(st, st)
            if clam and n in ("cke", "odt"):
                # only chip selects are broadcast in clam-shell mode; cke/odt of the upper half follow Record.connect (lower bits)
                bad.append(z3.Extract(st.size() - 1, 0, mt) != st)
                continue
            bad.append(mt != st)
        solve("hardware_mode_passes_controller_commands_and_write_data_unchanged", hw, z3.Or(*bad))
        bad = []
        master_s2m = {(pi, n): s for pi, n, s in _fields(dut.master, DIR_S_TO_M)}
        for pi, n, ss in _fields(dut.slave, DIR_S_TO_M):
            bad.append(d.sig_val(ss).t != d.sig_val(master_s2m[(pi, n)]).t)
        solve("hardware_mode_returns_phy_read_data_unchanged_same_cycle", hw, z3.Or(*bad))
        # external DFI selected
        ext_m2s = {(pi, n): s for pi, n, s in _fields(dut.ext_dfi, DIR_M_TO_S)}
        bad = []
        if not clam:
            for pi, n, ms in _fields(dut.master, DIR_M_TO_S):
                bad.append(d.sig_val(ms).t != d.sig_val(ext_m2s[(pi, n)]).t)
            solve("external_dfi_selected_passes_external_commands", sel == 1, ext == 1, z3.Or(*bad))
        # software mode: non-interference of controller-side inputs
        slave_in = [d._tvars[s] for _, _, s in _fields(dut.slave, DIR_M_TO_S)]
        ext_in = [d._tvars[s] for _, _, s in _fields(dut.ext_dfi, DIR_M_TO_S)] + [ext]
        sub = [(v, z3.BitVec("alt!" + v.decl().name(), v.size())) for v in slave_in + ext_in]
        bad = []
        for pi, n, ms in _fields(dut.master, DIR_M_TO_S):
            mt = d.sig_val(ms).t
            bad.append(mt != z3.substitute(mt, *sub))
        solve("software_mode_nothing_from_controller_reaches_phy(non-interference)", sel == 0, z3.Or(*bad))
        solve("witness_hardware_mode_command_passes", hw, d.sig_val(dut.master.phases[0].ras_n).t == 0, expect="sat")
        solve("witness_software_mode_command_issued", sel == 0, d.sig_val(dut.master.phases[0].ras_n).t == 0, expect="sat")
    except Exception as e:
        import traceback
        recs.append(dict(q="encode", result="unknown", s=0.0, expect="unsat", detail="%r\n%s" % (e, traceback.format_exc())))
    return label, cfg, recs, time.time() - t00


def rc_bench(name, ratio=2, nph=1, write_delay=0, read_delay=0, databits=16, nranks=1):
    """real DFIRateConverter (Serializer/Deserializer) on a phase-aligned two-clock schedule"""
    from vlib import bmc, monitors
    from litedram.phy.dfi import Interface, DFIRateConverter
    from checks.c12 import _bad_adder
    fast = "sys%dx" % ratio
    phy_dfi = Interface(addressbits=13, bankbits=3, nranks=nranks, databits=databits, nphases=nph)

    class Top(Module):
        pass
    top = Top()
    top.submodules.dut = dut = DFIRateConverter(phy_dfi, clkdiv="sys", clk=fast, ratio=ratio, write_delay=write_delay,
                                                read_delay=read_delay)
    sdfi = dut.dfi
    fsync = getattr(top.sync, fast)
    inputs = {}
    slow_in = []
    cmd_names = [n for n, w, d in phy_dfi.phases[0].layout if d == DIR_M_TO_S and n not in ("wrdata", "wrdata_mask")]
    for i, ph in enumerate(sdfi.phases):
        for n in cmd_names + ["wrdata", "wrdata_mask"]:
            sig = getattr(ph, n)
            inputs["s%d_%s" % (i, n)] = sig
            slow_in.append(sig)
    for i, ph in enumerate(phy_dfi.phases):
        inputs["f%d_rddata" % i] = ph.rddata
        inputs["f%d_rddata_valid" % i] = ph.rddata_valid
    mc = Signal(max=max(ratio, 2), reset=ratio - 1)
    started = Signal()
    started2 = Signal(2)
    fsync += [mc.eq(Mux(mc == ratio - 1, 0, mc + 1)), If(mc == ratio - 1, started.eq(1), started2.eq(Mux(started2 == 3, 3, started2 + 1)))]
    assumes, bads, covers = {}, {}, {}
    bad = _bad_adder(top, bads)
    # slow-domain inputs change only right after a slow edge
    same = []
    for sig in slow_in:
        p = Signal(len(sig))
        fsync += p.eq(sig)
        same.append(p == sig)
    a = Signal()
    top.comb += a.eq((mc == 0) | monitors.all_(same))
    assumes["slow_inputs_stable_within_a_slow_cycle"] = a
    # commands: slow phase pi + nph*j of slow cycle c  ->  fast phase pi in fast cycle j of the next slow period
    for pi, fph in enumerate(phy_dfi.phases):
        mism = []
        for n in cmd_names:
            store = []
            for j in range(ratio):
                src = getattr(sdfi.phases[pi + nph * j], n)
                r = Signal(len(src))
                fsync += If(mc == ratio - 1, r.eq(src))
                store.append(r)
            exp = Array(store)[mc]
            mism.append(getattr(fph, n) != exp)
        bad("fast_phase%d_command_signals_differ_from_slow_phase_of_previous_slow_cycle" % pi, started & monitors.any_(mism))
        # write data: one fast burst at sub-cycle write_delay
        for n in ("wrdata", "wrdata_mask"):
            parts = []
            for j in range(ratio):
                src = getattr(sdfi.phases[pi * ratio + j], n)
                r = Signal(len(src))
                fsync += If(mc == ratio - 1, r.eq(src))
                parts.append(r)
            exp = Mux(mc == write_delay, Cat(*parts), 0)
            bad("fast_phase%d_%s_not_the_slow_burst_at_write_delay" % (pi, n), started & (getattr(fph, n) != exp))
        # read data: fast word of sub-cycle read_delay -> slow phases two slow edges later
        for n in ("rddata", "rddata_valid"):
            src = getattr(fph, n)
            cap = Signal(len(src))
            st1 = Signal(len(src))
            st2 = Signal(len(src))
            fsync += [If(mc == read_delay, cap.eq(src)),
                      If(mc == ratio - 1, st1.eq(src if read_delay == ratio - 1 else cap), st2.eq(st1))]
            if n == "rddata":
                w = len(src) // ratio
                for j in range(ratio):
                    bad("slow_phase%d_rddata_not_the_fast_word_of_read_delay_cycle" % (pi * ratio + j),
                        (started2 == 3) & (sdfi.phases[pi * ratio + j].rddata != st2[j * w:(j + 1) * w]))
            else:
                for j in range(ratio):
                    bad("slow_phase%d_rddata_valid_not_replicated" % (pi * ratio + j),
                        (started2 == 3) & (sdfi.phases[pi * ratio + j].rddata_valid != st2))
    c = Signal()
    top.comb += c.eq((started2 == 3) & (sdfi.phases[0].rddata_valid == 1) & (sdfi.phases[0].rddata != 0))
    covers["read_data_arrives_on_slow_side"] = c
    c2 = Signal()
    top.comb += c2.eq(started & (phy_dfi.phases[0].wrdata_mask != 0) & (phy_dfi.phases[0].ras_n == 0))
    covers["masked_write_data_and_command_on_fast_side"] = c2
    sched = [{"sys", fast}] + [{fast}] * (ratio - 1)
    b = bmc.Bench(name, top, inputs, assumes=assumes, bads=bads, covers=covers, schedule=sched, clock_domains=("sys", fast),
                  info=dict(ratio=ratio, nph=nph, write_delay=write_delay, read_delay=read_delay))
    return b


RC_CFG = {
    "rc_r2_p1_w0_r0": (dict(ratio=2, nph=1), 14, 20, "qt"),
    "rc_r2_p2_w1_r1": (dict(ratio=2, nph=2, write_delay=1, read_delay=1), 14, 20, "qt"),
    "rc_r4_p1_w2_r3": (dict(ratio=4, nph=1, write_delay=2, read_delay=3, databits=32), 20, 28, "qt"),
    "rc_r4_p2_w3_r0": (dict(ratio=4, nph=2, write_delay=3, read_delay=0, databits=32), 0, 24, "t"),
    "rc_r2_p1_w1_r0_2ranks": (dict(ratio=2, nph=1, write_delay=1, read_delay=0, nranks=2), 0, 20, "t"),
    "rc_r4_p1_w0_r1": (dict(ratio=4, nph=1, write_delay=0, read_delay=1, databits=32), 0, 24, "t"),
}
BENCHES = {n: partial(rc_bench, n, **c[0]) for n, c in RC_CFG.items()}


def ddr4mux_job(nphases):
    """DDR4DFIMux (phy/dfi.py): the controller encodes ACTIVATE as ras_n=0,cas_n=1,we_n=1; a DDR4 device wants ACT_n=0 with the row
    bits 16/15/14 on the RAS_n/CAS_n/WE_n pins (JESD79-4 command truth table) and ACT_n=1 with the pins unchanged otherwise"""
    from vlib.fhdl2smt import Design
    from litedram.phy.dfi import Interface, DDR4DFIMux
    label = "ddr4_dfi_mux_p%d" % nphases
    recs = []
    t00 = time.time()
    try:
        di = Interface(addressbits=17, bankbits=4, nranks=1, databits=16, nphases=nphases)
        do = Interface(addressbits=17, bankbits=4, nranks=1, databits=16, nphases=nphases)

        class Top(Module):
            pass
        top = Top()
        top.submodules.dut = DDR4DFIMux(di, do)
        ins = [s_ for _, _, s_ in _fields(di, DIR_M_TO_S)] + [s_ for _, _, s_ in _fields(do, DIR_S_TO_M)]
        d = Design(top, inputs=ins)

        def solve(q, *cons, expect="unsat"):
            sv = z3.Solver()
            sv.set("timeout", 120000)
            sv.add(*cons)
            t0 = time.time()
            r = str(sv.check())
            rec = dict(q=q, result=r, s=round(time.time() - t0, 2), expect=expect)
            if r == "sat":
                m = sv.model()
                rec["model"] = {str(x.name()): (m[x].as_long() if z3.is_bv_value(m[x]) else str(m[x])) for x in m.decls()}
            recs.append(rec)
        one = z3.BitVecVal(1, 1)
        zero = z3.BitVecVal(0, 1)
        bad_act, bad_other, bad_rest = [], [], []
        for pi_, po in zip(di.phases, do.phases):
            v = lambda sg: d.sig_val(sg).t
            is_act = z3.And(v(pi_.ras_n) == zero, v(pi_.cas_n) == one, v(pi_.we_n) == one)
            a = v(pi_.address)
            bad_act.append(z3.And(is_act, z3.Or(v(po.act_n) != zero, v(po.ras_n) != z3.Extract(16, 16, a), v(po.cas_n) != z3.Extract(15, 15, a),
                                                   v(po.we_n) != z3.Extract(14, 14, a))))
            bad_other.append(z3.And(z3.Not(is_act), z3.Or(v(po.act_n) != one, v(po.ras_n) != v(pi_.ras_n), v(po.cas_n) != v(pi_.cas_n),
                                                            v(po.we_n) != v(pi_.we_n))))
            for n in ("address", "bank", "cs_n", "cke", "odt", "reset_n", "wrdata", "wrdata_en", "wrdata_mask", "rddata_en"):
                bad_rest.append(v(getattr(po, n)) != v(getattr(pi_, n)))
            for n in ("rddata", "rddata_valid"):
                bad_rest.append(v(getattr(pi_, n)) != v(getattr(po, n)))
        solve("activate_is_re_encoded_with_row_bits_16_15_14_on_ras_cas_we", z3.Or(*bad_act))
        solve("other_commands_keep_ras_cas_we_and_deassert_act_n", z3.Or(*bad_other))
        solve("address_bank_data_and_read_path_pass_unchanged", z3.Or(*bad_rest))
        solve("witness_activate", d.sig_val(do.phases[0].act_n).t == zero, expect="sat")
    except Exception as e:
        import traceback
        recs.append(dict(q="encode", result="unknown", s=0.0, expect="unsat", detail="%r\n%s" % (e, traceback.format_exc())))
    return label, (nphases,), recs, time.time() - t00


def run_ddr4mux(ctx):
    for nph in ((2, 4) if ctx.tier == "quick" else (1, 2, 4)):
        label, cfg, recs, secs = ddr4mux_job(nph)
        if ctx.only and not ctx.only.search(label):
            continue
        for r in recs:
            ql = "%s:%s" % (label, r["q"])
            ctx.oblige(ql, r["result"], r["s"], expect=r["expect"], detail=r.get("detail"))
            if r["expect"] == "sat":
                if r["result"] != "sat":
                    ctx.inconclusive.append("%s: witness unsatisfiable" % ql)
                continue
            if r["result"] == "sat":
                path = ctx.write_replay(label, r["q"], dict(config=["ddr4mux"] + list(cfg), model=r.get("model")))
                ctx.violation(label, r["q"], path)


def run_injector(ctx):
    cfgs = INJ_Q if ctx.tier == "quick" else INJ_T
    ctxm = multiprocessing.get_context("fork")
    with cf.ProcessPoolExecutor(max_workers=ctx.jobs_n, mp_context=ctxm) as ex:
        for label, cfg, recs, secs in ex.map(inj_job, cfgs, chunksize=1):
            for r in recs:
                ql = "%s:%s" % (label, r["q"])
                ctx.oblige(ql, r["result"], r["s"], expect=r["expect"], detail=r.get("detail"),
                           sample=dict(config=label, query=r["q"], result=r["result"]))
                if r["expect"] == "sat":
                    if r["result"] != "sat":
                        ctx.inconclusive.append("%s: witness unsatisfiable" % ql)
                    continue
                if r["result"] == "sat":
                    path = ctx.write_replay(label, r["q"].split("(")[0], dict(config=list(cfg), model=r.get("model")))
                    ctx.violation(label, r["q"].split("(")[0], path)


def run(ctx):
    ctx.assume("injector: CSR registers are free state (any software programming); CSR bus strobes are free inputs")
    ctx.assume("clam-shell: only cs_n is broadcast to both halves (as the source states); cke/odt are compared on the lower half")
    run_injector(ctx)
    run_ddr4mux(ctx)
    ctx.assume("rate converter: slow and fast clocks phase aligned (fast = ratio x slow, edges coincide); slow-side inputs change "
               "only at slow edges; serializer counters start from their reset value; latencies as documented (commands and write "
               "data one slow cycle, read data two slow cycles)")
    for n, (kw, k_q, k_t, tiers) in RC_CFG.items():
        if ctx.only and not ctx.only.search(n):
            continue
        if ctx.tier == "quick" and "q" in tiers:
            ctx.add(n, k_q, timeout=900, diff_cycles=10)
        elif ctx.tier == "thorough":
            ctx.add(n, k_t, timeout=3000, diff_cycles=12)
    ctx.run()
    ctx.states = max(1, ctx.states)
    ctx.transitions = max(1, ctx.transitions)


RC_K = {}


def replay_custom(data):
    """re-decide the stored query on the current tree (combinational queries: the model is an input assignment of one cycle)"""
    cfg = data.get("config") or []
    if cfg and cfg[0] == "ddr4mux":
        label, _, recs, _ = ddr4mux_job(int(cfg[1]))
    else:
        label, _, recs, _ = inj_job(tuple(cfg))
    goal = data.get("goal")
    for r in recs:
        if r["q"].split("(")[0] == goal and r["result"] == "sat" and r["expect"] == "unsat":
            print("query %s:%s is satisfiable on this tree: %s" % (label, r["q"], r.get("model")))
            print("VIOLATION property=C18 replay=%s" % data.get("path", "<file>"))
            return 1
    print("query %s:%s holds on this tree" % (label, goal))
    return 0
