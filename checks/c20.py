"""C20 -- LPDDR4 (and LPDDR5) PHY translate each DFI command into the matching CA sequence."""
import multiprocessing
import time
from functools import partial, reduce
from operator import or_
import concurrent.futures as cf
import z3
from migen import *

FILES = ["litedram/phy/lpddr4/commands.py", "litedram/phy/lpddr5/commands.py", "litedram/phy/utils.py",
         "litedram/phy/lpddr4/basephy.py", "litedram/phy/lpddr5/basephy.py"]
LEVEL = "model_checking"
TECHNIQUE = ("combinational validity (z3 QF_BV) of the elaborated real LPDDR4 DFIPhaseAdapter against an independently typed "
             "JESD209-4 command decoder, all DFI fields symbolic; bounded model checking of the real CommandsPipeline (8 phases, "
             "span 4, basic and extended overlap check) against a slot-based reference, all command spacings symbolic; the same for the "
             "LPDDR5 adapter and for the two-cycle command buffer of the real LPDDR5SimPHY")
EXPLANATION = ("(1) adapter: for every value of cs_n/ras_n/cas_n/we_n/bank/address the four CS/CA slots decode (JEDEC truth table "
               "typed into the harness, not derived from Command.TRUTH_TABLE) to the DFI operation with the same bank, row or "
               "column, AP/AB flag, mode-register address and operand.  (2) pipeline: every output slot of every cycle equals "
               "the OR of the slot contributions of the non-suppressed commands, where a command on phase p of cycle c occupies "
               "slots c*8+p+LATENCY.. and is suppressed iff a command was issued in the previous span-1 phases (basic: on DFI, "
               "extended: actually emitted); all 8 phases of every cycle are free inputs, so every spacing is covered.")

L, H = 0, 1


def build_adapter(masked):
    from litedram.phy.dfi import Interface
    from litedram.phy.lpddr4.commands import DFIPhaseAdapter

    class Top(Module):
        pass
    top = Top()
    dfi = Interface(addressbits=17, bankbits=6, nranks=1, databits=16, nphases=1)
    ph = dfi.phases[0]
    mw = Signal(name_override="masked_write") if masked == "dyn" else bool(masked)
    top.submodules.a = a = DFIPhaseAdapter(ph, masked_write=mw)
    top.ph, top.mw = ph, mw
    return top


def adapter_job(masked):
    from vlib.fhdl2smt import Design
    label = "lpddr4_adapter_masked_%s" % masked
    recs = []
    t00 = time.time()
    try:
        top = build_adapter(masked)
        ph, a = top.ph, top.a
        ins = [ph.cs_n, ph.ras_n, ph.cas_n, ph.we_n, ph.bank, ph.address] + ([top.mw] if masked == "dyn" else [])
        d = Design(top, inputs=ins)
        CSN, RASN, CASN, WEN = [d._tvars[s] for s in (ph.cs_n, ph.ras_n, ph.cas_n, ph.we_n)]
        BA, A = d._tvars[ph.bank], d._tvars[ph.address]
        cs = d.sig_val(a.cs).t
        ca = [d.sig_val(a.ca[i]).t for i in range(4)]
        valid = d.sig_val(a.valid).t
        if masked == "dyn":
            MW = d._tvars[top.mw] == 1
        else:
            MW = z3.BoolVal(bool(masked))

        def bit(t, i):
            return z3.Extract(i, i, t)

        def pat(slot, pattern):
            """CA0..CA5 of a slot match a pattern of L/H/None"""
            return z3.And(*[bit(ca[slot], i) == v for i, v in enumerate(pattern) if v is not None])

        def bits(slot, lo, hi):
            return z3.Extract(hi, lo, ca[slot])
        # --- independent JESD209-4 decoder: each small command = (CS=H edge, CS=L edge) = two consecutive slots
        def small(first):  # slots first, first+1 carry a small command
            return z3.And(bit(cs, first) == 1, bit(cs, first + 1) == 0)

        def nosmall(first):
            return z3.And(bit(cs, first) == 0, bit(cs, first + 1) == 0)
        dec = {}
        # two-part commands
        dec["ACT"] = z3.And(small(0), small(2), pat(0, [H, L]), pat(2, [H, H]))
        act_row = z3.Concat(bit(ca[1], 3),                      # R16
                            bits(0, 2, 5),                      # R12..R15 -> as Extract(5,2) = [R15..R12]
                            bits(1, 4, 5),                      # R10,R11
                            bits(2, 2, 5),                      # R6..R9
                            bits(3, 0, 5))                      # R0..R5
        act_ba = bits(1, 0, 2)
        dec["RD"] = z3.And(small(0), small(2), pat(0, [L, H, L, L, L]), pat(2, [L, H, L, L, H]))
        dec["WR"] = z3.And(small(0), small(2), pat(0, [L, L, H, L, L]), pat(2, [L, H, L, L, H]))
        dec["MWR"] = z3.And(small(0), small(2), pat(0, [L, L, H, H, L]), pat(2, [L, H, L, L, H]))
        dec["MRR"] = z3.And(small(0), small(2), pat(0, [L, H, H, H, L]), pat(2, [L, H, L, L, H]))
        dec["MRW"] = z3.And(small(0), small(2), pat(0, [L, H, H, L, L]), pat(2, [L, H, H, L, H]))
        cas_ba = bits(1, 0, 2)
        cas_c9 = bit(ca[1], 4)
        cas_ap = bit(ca[1], 5)
        cas_bl = bit(ca[0], 5)
        cas_c8 = bit(ca[2], 5)
        cas_c2_7 = bits(3, 0, 5)
        col_2_9 = z3.Concat(cas_c9, cas_c8, cas_c2_7)
        mrr_ma = bits(1, 0, 5)
        mrw_ma = bits(1, 0, 5)
        mrw_op = z3.Concat(bit(ca[0], 5), bit(ca[2], 5), bits(3, 0, 5))   # OP7, OP6, OP5..0
        # single small command, sent in the second half
        dec["PRE"] = z3.And(nosmall(0), small(2), pat(2, [L, L, L, L, H]))
        dec["REF"] = z3.And(nosmall(0), small(2), pat(2, [L, L, L, H, L]))
        dec["MPC"] = z3.And(nosmall(0), small(2), pat(2, [L, L, L, L, L]))
        one_ab = bit(ca[2], 5)
        one_ba = bits(3, 0, 2)
        mpc_op = z3.Concat(bit(ca[2], 5), bits(3, 0, 5))
        dec["NONE"] = cs == 0
        # --- DFI side
        sel = CSN == 0
        def dfi_cmd(cas, ras, we):
            return z3.And(sel, CASN == (0 if cas else 1), RASN == (0 if ras else 1), WEN == (0 if we else 1))
        is_act, is_rd, is_wr = dfi_cmd(0, 1, 0), dfi_cmd(1, 0, 0), dfi_cmd(1, 0, 1)
        is_pre, is_ref, is_zqc, is_mrs = dfi_cmd(0, 1, 1), dfi_cmd(1, 1, 0), dfi_cmd(0, 0, 1), dfi_cmd(1, 1, 1)
        is_nop = z3.Or(z3.Not(sel), dfi_cmd(0, 0, 0))
        is_mpc = z3.And(is_zqc, BA == 0)
        is_mrr = z3.And(is_zqc, BA == 1)
        is_zq_other = z3.And(is_zqc, BA != 0, BA != 1)

        def solve(q, *cons, expect="unsat"):
            s = z3.Solver()
            s.set("timeout", 300000)
            s.add(*cons)
            t0 = time.time()
            r = str(s.check())
            rec = dict(q=q, result=r, s=round(time.time() - t0, 2), expect=expect)
            if r == "sat":
                m = s.model()
                rec["model"] = {str(x.name()): (m[x].as_long() if z3.is_bv_value(m[x]) else str(m[x])) for x in m.decls()}
            recs.append(rec)
        ex = lambda hi, lo, t: z3.Extract(hi, lo, t)
        solve("activate_decodes_to_same_bank_and_row", is_act,
              z3.Or(z3.Not(dec["ACT"]), act_ba != ex(2, 0, BA), act_row != ex(16, 0, A), valid != 1))
        solve("read_decodes_to_same_bank_column_autoprecharge", is_rd,
              z3.Or(z3.Not(dec["RD"]), cas_ba != ex(2, 0, BA), col_2_9 != ex(9, 2, A), cas_ap != ex(10, 10, A), cas_bl != 0, valid != 1))
        solve("write_decodes_to_write_or_masked_write_same_bank_column_autoprecharge", is_wr,
              z3.Or(z3.Not(z3.If(MW, dec["MWR"], dec["WR"])), cas_ba != ex(2, 0, BA), col_2_9 != ex(9, 2, A),
                    cas_ap != ex(10, 10, A), cas_bl != 0, valid != 1))
        solve("precharge_decodes_to_same_bank_and_all_bank_flag", is_pre,
              z3.Or(z3.Not(dec["PRE"]), one_ba != ex(2, 0, BA), one_ab != ex(10, 10, A), valid != 1))
        solve("refresh_decodes_to_refresh_with_all_bank_flag", is_ref,
              z3.Or(z3.Not(dec["REF"]), one_ba != ex(2, 0, BA), one_ab != ex(10, 10, A), valid != 1))
        solve("mode_register_write_decodes_to_same_register_and_operand", is_mrs,
              z3.Or(z3.Not(dec["MRW"]), mrw_ma != ex(5, 0, BA), mrw_op != ex(7, 0, A), valid != 1))
        solve("mpc_decodes_to_same_operand", is_mpc, z3.Or(z3.Not(dec["MPC"]), mpc_op != ex(6, 0, A), valid != 1))
        solve("mode_register_read_decodes_to_same_register", is_mrr,
              z3.Or(z3.Not(dec["MRR"]), mrr_ma != ex(5, 0, A), valid != 1))
        solve("no_command_emits_nothing", z3.Or(is_nop, is_zq_other), z3.Or(z3.Not(dec["NONE"]), valid != 0))
        solve("exactly_the_listed_dfi_commands_exist(sanity)",
              z3.Not(z3.Or(is_act, is_rd, is_wr, is_pre, is_ref, is_mrs, is_mpc, is_mrr, is_nop, is_zq_other)))
        solve("witness_activate", is_act, dec["ACT"], expect="sat")
        solve("witness_masked_write", is_wr, dec["MWR"], expect="sat" if masked in (True, "dyn") else "unsat")
    except Exception as e:
        import traceback
        recs.append(dict(q="encode", result="unknown", s=0.0, expect="unsat", detail="%r\n%s" % (e, traceback.format_exc())))
    return label, masked, recs, time.time() - t00


def lpddr5_job(masked):
    """LPDDR5 DFIPhaseAdapter: every DFI command decodes (JESD209-5 truth table typed here) to the same operation/operands"""
    from vlib.fhdl2smt import Design
    label = "lpddr5_adapter_masked_%s" % masked
    recs = []
    t00 = time.time()
    try:
        from litedram.phy.dfi import Interface
        from litedram.phy.lpddr5.commands import DFIPhaseAdapter as A5

        class Top(Module):
            pass
        top = Top()
        dfi = Interface(addressbits=18, bankbits=7, nranks=1, databits=16, nphases=1)
        ph = dfi.phases[0]
        mw = Signal(name_override="masked_write") if masked == "dyn" else bool(masked)
        top.submodules.a = a = A5(ph, masked_write=mw)
        ins = [ph.cs_n, ph.ras_n, ph.cas_n, ph.we_n, ph.bank, ph.address, a.wck_sync_done] + ([mw] if masked == "dyn" else [])
        d = Design(top, inputs=ins)
        CSN, RASN, CASN, WEN = [d._tvars[s_] for s_ in (ph.cs_n, ph.ras_n, ph.cas_n, ph.we_n)]
        BA, A = d._tvars[ph.bank], d._tvars[ph.address]
        SD = d._tvars[a.wck_sync_done]
        cs = d.sig_val(a.cs).t
        ca = [d.sig_val(a.ca[i]).t for i in range(4)]
        valid = d.sig_val(a.valid).t
        MW = (d._tvars[mw] == 1) if masked == "dyn" else z3.BoolVal(bool(masked))

        def bit(t, i):
            return z3.Extract(i, i, t)

        def pat(slot, pattern):
            return z3.And(*[bit(ca[slot], i) == v for i, v in enumerate(pattern) if v is not None])

        def bitsx(slot, lo, hi):
            return z3.Extract(hi, lo, ca[slot])
        cs0, cs1 = bit(cs, 0) == 1, bit(cs, 1) == 1
        # command = (rising edge CA[6:0], falling edge CA[6:0]) with CS high; first command in slots 0/1, second in 2/3
        two = z3.And(cs0, cs1)
        one = z3.And(z3.Not(cs0), cs1)
        dec = {}
        dec["ACT"] = z3.And(two, pat(0, [H, H, H]), pat(2, [H, H, L]))
        act_row = z3.Concat(bitsx(0, 3, 6), bitsx(1, 4, 6), bitsx(2, 3, 6), bitsx(3, 0, 6))     # R17..R14, R13..R11, R10..R7, R6..R0
        act_ba = bitsx(1, 0, 3)
        cas1 = pat(0, [L, L, H, H])
        dec["RD"] = z3.And(two, cas1, pat(2, [H, L, L]))
        dec["WR"] = z3.And(two, cas1, pat(2, [L, H, H]))
        dec["MWR"] = z3.And(two, cas1, pat(2, [L, H, L]))
        dec["MRR"] = z3.And(two, cas1, pat(2, [L, L, L, H, H, L, L]))
        dec["MRW"] = z3.And(two, pat(0, [L, L, L, H, H, L, H]), pat(2, [L, L, L, H, L, L]))
        cas_ws = bitsx(0, 4, 6)          # WS_WR, WS_RD, WS_FS
        cas_rest = ca[1]
        col = z3.Concat(bitsx(2, 4, 6), bitsx(3, 4, 5), bit(ca[2], 3))   # C5 C4 C3 | C2 C1 | C0
        rw_ba = bitsx(3, 0, 3)
        rw_ap = bit(ca[3], 6)
        dec["PRE"] = z3.And(one, pat(2, [L, L, L, H, H, H, H]))
        dec["REF"] = z3.And(one, pat(2, [L, L, L, H, H, H, L]))
        dec["MPC"] = z3.And(one, pat(2, [L, L, L, L, H, H]))
        dec["NOP"] = z3.And(one, pat(2, [L, L, L, L, L, L, L]))
        dec["NONE"] = cs == 0
        sel = CSN == 0

        def dfi_cmd(cas, ras, we):
            return z3.And(sel, CASN == (0 if cas else 1), RASN == (0 if ras else 1), WEN == (0 if we else 1))
        is_act, is_rd, is_wr = dfi_cmd(0, 1, 0), dfi_cmd(1, 0, 0), dfi_cmd(1, 0, 1)
        is_pre, is_ref, is_zqc, is_mrs = dfi_cmd(0, 1, 1), dfi_cmd(1, 1, 0), dfi_cmd(0, 0, 1), dfi_cmd(1, 1, 1)
        is_nop = z3.Or(z3.Not(sel), dfi_cmd(0, 0, 0))

        def solve(q, *cons, expect="unsat"):
            s_ = z3.Solver()
            s_.set("timeout", 300000)
            s_.add(*cons)
            t0 = time.time()
            r = str(s_.check())
            rec = dict(q=q, result=r, s=round(time.time() - t0, 2), expect=expect)
            if r == "sat":
                m = s_.model()
                rec["model"] = {str(x.name()): (m[x].as_long() if z3.is_bv_value(m[x]) else str(m[x])) for x in m.decls()}
            recs.append(rec)
        ex = lambda hi, lo, t: z3.Extract(hi, lo, t)
        exp_ws = lambda kind: z3.If(SD == 0, z3.BitVecVal({"WR": 0b001, "RD": 0b010}[kind], 3), z3.BitVecVal(0, 3))
        solve("lpddr5_activate_decodes_to_same_bank_and_row", is_act,
              z3.Or(z3.Not(dec["ACT"]), act_ba != ex(3, 0, BA), act_row != ex(17, 0, A), valid != 1))
        solve("lpddr5_read_decodes_to_cas_plus_read_same_bank_column_autoprecharge", is_rd,
              z3.Or(z3.Not(dec["RD"]), rw_ba != ex(3, 0, BA), col != ex(9, 4, A), rw_ap != ex(10, 10, A), cas_ws != exp_ws("RD"),
                    cas_rest != 0, valid != 1))
        solve("lpddr5_write_decodes_to_cas_plus_write_or_masked_write", is_wr,
              z3.Or(z3.Not(z3.If(MW, dec["MWR"], dec["WR"])), rw_ba != ex(3, 0, BA), col != ex(9, 4, A), rw_ap != ex(10, 10, A),
                    cas_ws != exp_ws("WR"), cas_rest != 0, valid != 1))
        solve("lpddr5_precharge_decodes_to_same_bank_and_all_bank_flag", is_pre,
              z3.Or(z3.Not(dec["PRE"]), bitsx(3, 0, 3) != ex(3, 0, BA), bit(ca[3], 6) != ex(10, 10, A), valid != 1))
        solve("lpddr5_refresh_decodes_with_all_bank_flag", is_ref,
              z3.Or(z3.Not(dec["REF"]), bitsx(3, 0, 2) != ex(2, 0, BA), bit(ca[3], 6) != ex(10, 10, A), valid != 1))
        solve("lpddr5_mode_register_write_decodes_to_same_register_and_operand", is_mrs,
              z3.Or(z3.Not(dec["MRW"]), ca[1] != ex(6, 0, BA), z3.Concat(bit(ca[2], 6), ca[3]) != ex(7, 0, A), valid != 1))
        solve("lpddr5_mode_register_read_decodes_to_same_register", z3.And(is_zqc, BA == 1),
              z3.Or(z3.Not(dec["MRR"]), ca[3] != ex(6, 0, A), valid != 1))
        solve("lpddr5_mpc_decodes_to_operand(0_means_zq_latch)", z3.And(is_zqc, BA == 0),
              z3.Or(z3.Not(dec["MPC"]), z3.Concat(bit(ca[2], 6), ca[3]) != z3.If(A == 0, z3.BitVecVal(0b10000110, 8), ex(7, 0, A)), valid != 1))
        solve("lpddr5_no_command_emits_nothing", z3.Or(is_nop, z3.And(is_zqc, z3.UGT(BA, 2))), z3.Or(z3.Not(dec["NONE"]), valid != 0))
        # encoding is injective in the operands (no truth table involved): two ACTs / two reads with different operands differ on CA
        A2 = z3.BitVec("A2", 18)
        B2 = z3.BitVec("B2", 7)
        sub = [(A, A2), (BA, B2)]
        ca2 = [z3.substitute(x, *sub) for x in ca]
        same = z3.And(*[x == y for x, y in zip(ca, ca2)])
        solve("lpddr5_two_activates_with_different_bank_or_row_never_share_a_ca_sequence", is_act,
              z3.Or(ex(3, 0, BA) != ex(3, 0, B2), ex(17, 0, A) != ex(17, 0, A2)), same)
        solve("lpddr5_two_reads_with_different_bank_column_or_ap_never_share_a_ca_sequence", is_rd,
              z3.Or(ex(3, 0, BA) != ex(3, 0, B2), ex(10, 4, A) != ex(10, 4, A2)), same)
        solve("lpddr5_witness_activate", is_act, dec["ACT"], expect="sat")
    except Exception as e:
        import traceback
        recs.append(dict(q="encode", result="unknown", s=0.0, expect="unsat", detail="%r\n%s" % (e, traceback.format_exc())))
    return label, masked, recs, time.time() - t00


# ---- (2) pipeline ----------------------------------------------------------------------------------

class FakeAdapter:
    def __init__(self, i):
        self.valid = Signal(name_override="a%d_valid" % i)
        self.cs = Signal(4, name_override="a%d_cs" % i)
        self.ca = Array([Signal(6, name_override="a%d_ca%d" % (i, j)) for j in range(4)])


def pipeline_bench(name, extended=False, real_adapters=False, nphases=8, span=4, boundary_sparse=False):
    """real CommandsPipeline.  Adapter outputs are free inputs (any cs/ca pattern with its valid flag), or the real LPDDR4
    adapters driven by free DFI phases."""
    from vlib import bmc
    from litedram.phy.utils import CommandsPipeline

    class Top(Module):
        pass
    top = Top()
    inputs = {}
    if real_adapters:
        from litedram.phy.dfi import Interface
        from litedram.phy.lpddr4.commands import DFIPhaseAdapter
        dfi = Interface(addressbits=17, bankbits=6, nranks=1, databits=16, nphases=nphases)
        adapters = []
        for i, ph in enumerate(dfi.phases):
            ad = DFIPhaseAdapter(ph, masked_write=True)
            top.submodules += ad
            adapters.append(ad)
            for n in ("cs_n", "ras_n", "cas_n", "we_n", "bank", "address"):
                inputs["p%d_%s" % (i, n)] = getattr(ph, n)
    else:
        adapters = [FakeAdapter(i) for i in range(nphases)]
        for i, ad in enumerate(adapters):
            inputs["a%d_valid" % i] = ad.valid
            inputs["a%d_cs" % i] = ad.cs
            for j in range(4):
                inputs["a%d_ca%d" % (i, j)] = ad.ca[j]
    top.submodules.pipe = pipe = CommandsPipeline(adapters, cs_ser_width=nphases, ca_ser_width=nphases, ca_nbits=6,
                                                  cmd_nphases_span=span, extended_overlaps_check=extended)
    # ---- slot-based reference -------------------------------------------------------------------
    # history of the previous cycle's adapter outputs (commands of cycle t-1 appear in the output word of cycle t ... t+1)
    np_ = nphases
    v_now = [ad.valid for ad in adapters]
    cs_now = [ad.cs for ad in adapters]
    ca_now = [[ad.ca[j] for j in range(4)] for ad in adapters]

    def reg(sig, n=None):
        r = Signal(len(sig) if n is None else n)
        top.sync += r.eq(sig)
        return r
    v1 = [reg(x) for x in v_now]          # cycle t-1
    v2 = [reg(x) for x in v1]             # cycle t-2
    v3 = [reg(x) for x in v2]
    cs1 = [reg(x) for x in cs_now]
    cs2 = [reg(x) for x in cs1]
    ca1 = [[reg(x) for x in row] for row in ca_now]
    ca2 = [[reg(x) for x in row] for row in ca1]
    # "issued" history on a global phase line: index 0 = phase 0 of cycle t-3 ... ; emitted (extended) is defined recursively
    line_valid = v3 + v2 + v1
    n_prev = span - 1
    if extended:
        emitted = []
        for k, v in enumerate(line_valid):
            prev = emitted[max(0, k - n_prev):k]
            e = Signal()
            top.comb += e.eq(v & ~reduce(or_, prev, 0))
            emitted.append(e)
        blockers = emitted
    else:
        blockers = line_valid
    allowed = []
    for k, v in enumerate(line_valid):
        prev = blockers[max(0, k - n_prev):k]
        a = Signal()
        top.comb += a.eq(v & ~reduce(or_, prev, 0))
        allowed.append(a)
    # in extended mode the first cycles after reset lack history (v3 = 0 before), fine: registers reset to 0 = no commands
    al2 = allowed[np_:2 * np_]      # cycle t-2
    al1 = allowed[2 * np_:3 * np_]  # cycle t-1
    exp_cs = []
    exp_ca = [[] for _ in range(6)]
    for q in range(np_):
        terms_cs = []
        terms_ca = [[] for _ in range(6)]
        for j in range(4):
            p = q - j
            if p >= 0:
                al, css, caa = al1[p], cs1[p], ca1[p]
            else:
                al, css, caa = al2[p + np_], cs2[p + np_], ca2[p + np_]
            terms_cs.append(al & css[j])
            for b in range(6):
                terms_ca[b].append(al & caa[j][b])
        exp_cs.append(reduce(or_, terms_cs))
        for b in range(6):
            exp_ca[b].append(reduce(or_, terms_ca[b]))
    bads = {}

    def bad(n, e):
        s = Signal(name_override="bad_" + n)
        top.comb += s.eq(e)
        bads[n] = s
    bad("cs_slots_differ_from_slot_reference", pipe.cs != Cat(*exp_cs))
    bad("ca_slots_differ_from_slot_reference", reduce(or_, [pipe.ca[b] != Cat(*exp_ca[b]) for b in range(6)]))
    covers = {}
    c = Signal()
    top.comb += c.eq(reduce(or_, [v1[p] & ~al1[p] for p in range(np_)]) & (pipe.cs != 0))
    covers["a_command_is_suppressed_while_another_is_emitted"] = c
    c2 = Signal()
    top.comb += c2.eq(al2[np_ - 1] & al1[3] & (pipe.cs[0:3] != 0))
    covers["command_on_last_phase_spills_into_next_word"] = c2
    assumes = {}
    if boundary_sparse:
        # no command in the first span-1 phases of a cycle when one was issued in the last span-1 phases of the previous cycle
        okb = Signal()
        top.comb += okb.eq(~(reduce(or_, v_now[:span - 1]) & reduce(or_, v1[np_ - (span - 1):])))
        assumes["no_commands_within_span_across_the_cycle_boundary"] = okb
    if not real_adapters:
        ok = Signal()
        top.comb += ok.eq(~reduce(or_, [(ad.valid == 0) & ((ad.cs != 0) | reduce(or_, [ad.ca[j] != 0 for j in range(4)]))
                                        for ad in adapters]))
        assumes["idle_adapter_outputs_zero"] = ok
    b = bmc.Bench(name, top, inputs, assumes=assumes, bads=bads, covers=covers,
                  info=dict(extended=extended, real_adapters=real_adapters))
    b.watch = {"cs": pipe.cs}
    return b


def lpddr5_phy_bench(name, wck_ck_ratio=2):
    """the real LPDDR5 (simulation) PHY: DFI command -> two-cycle CS/CA sequence through the command buffer.  The adapter's two
    half-commands are taken as they are (their JEDEC decoding is part 1); decided here: a command's first half leaves in its own
    cycle, its second half in the next one, and a command arriving in the cycle right after an emitted one is the only thing
    suppressed (and suppressed as a whole)"""
    from litedram.phy.lpddr5.simphy import LPDDR5SimPHY
    from vlib import bmc
    phy = LPDDR5SimPHY(sys_clk_freq=100e6, wck_ck_ratio=wck_ck_ratio)

    class Top(Module):
        pass
    top = Top()
    top.submodules.phy = phy
    p0 = phy.dfi.phases[0]
    inputs = {}
    for n in ("cs_n", "ras_n", "cas_n", "we_n", "address", "bank", "reset_n", "cke", "odt", "act_n"):
        sg = getattr(p0, n, None)
        if sg is not None:
            inputs["dfi_" + n] = sg
    A = phy.adapter
    prev = Signal()
    s_cs = Signal(len(A.cmd2.cs))
    s_p = Signal(7)
    s_n = Signal(7)
    acc = Signal()
    top.comb += acc.eq(A.valid & ~prev)
    top.sync += [prev.eq(acc), If(acc, s_cs.eq(A.cmd2.cs), s_p.eq(A.cmd2.ca[0]), s_n.eq(A.cmd2.ca[1]))]
    e_cs = Signal(len(phy.out.cs))
    e_p = Signal(7)
    e_n = Signal(7)
    top.comb += [
        If(prev, e_cs.eq(s_cs), e_p.eq(s_p), e_n.eq(s_n)
        ).Elif(A.valid, e_cs.eq(A.cmd1.cs), e_p.eq(A.cmd1.ca[0]), e_n.eq(A.cmd1.ca[1])
        ).Else(e_cs.eq(0), e_p.eq(0), e_n.eq(0))]
    o_p = Cat(*[phy.out.ca[b][0] for b in range(7)])
    o_n = Cat(*[phy.out.ca[b][1] for b in range(7)])
    bads = {}

    def bad(n, e):
        sg = Signal(name_override="bad_" + n)
        top.comb += sg.eq(e)
        bads[n] = sg
    bad("cs_differs_from_two_cycle_command_sequence", phy.out.cs != e_cs)
    bad("ca_differs_from_two_cycle_command_sequence", (o_p != e_p) | (o_n != e_n))
    covers = {}
    c1 = Signal()
    top.comb += c1.eq(prev & A.valid & (s_cs != 0))
    covers["command_arrives_right_after_an_emitted_command"] = c1
    pp = Signal()
    top.sync += pp.eq(prev & A.valid)
    c2 = Signal()
    top.comb += c2.eq(pp & A.valid & (A.cmd1.cs != 0))
    covers["third_command_right_after_a_suppressed_one_is_emitted"] = c2
    b = bmc.Bench(name, top, inputs, bads=bads, covers=covers, clock_domains=("sys",), info=dict(wck_ck_ratio=wck_ck_ratio))
    b.watch = {"cs": phy.out.cs, "valid": A.valid, "prev": prev}
    return b


BENCHES = {
    "lpddr5_phy_command_buffer": partial(lpddr5_phy_bench, "lpddr5_phy_command_buffer"),
    "pipeline_basic": partial(pipeline_bench, "pipeline_basic", False, False),
    "pipeline_extended": partial(pipeline_bench, "pipeline_extended", True, False),
    "pipeline_basic_real_adapters": partial(pipeline_bench, "pipeline_basic_real_adapters", False, True),
    "pipeline_extended_boundary_sparse": partial(pipeline_bench, "pipeline_extended_boundary_sparse", True, False, boundary_sparse=True),
}
PIPE_K = {"pipeline_basic": (6, 10, "qt"), "pipeline_extended": (6, 10, "qt"), "pipeline_basic_real_adapters": (5, 8, "qt"),
          "pipeline_extended_boundary_sparse": (6, 10, "qt")}


def run(ctx):
    ctx.assume("adapter: DFI ZQC with bank other than 0/1 is treated as no command (as the source documents); BL on-the-fly unused (0)")
    ctx.assume("pipeline: adapter outputs are free inputs (any cs/ca when valid, all-zero when not valid -- what the real adapters "
               "produce, proved in part 1) in the pipeline_basic/extended benches; "
               "pipeline latency 1 controller cycle; LPDDR4 parameters nphases=8, span=4, SDR CS/CA")
    ctx.assume("LPDDR5: adapter only (16-bank organisation, as the source supports); WCK-sync bits of CAS follow wck_sync_done; the "
               "LPDDR5 command buffer of the real (simulation) PHY: bench lpddr5_phy_command_buffer; the serializer/pad layer of the concrete "
               "PHYs is not covered")
    ctxm = multiprocessing.get_context("fork")
    with cf.ProcessPoolExecutor(max_workers=6, mp_context=ctxm) as ex:
        results = list(ex.map(adapter_job, [False, True, "dyn"], chunksize=1)) + list(ex.map(lpddr5_job, [False, True, "dyn"], chunksize=1))
        for label, masked, recs, secs in results:
            for r in recs:
                ql = "%s:%s" % (label, r["q"])
                ctx.oblige(ql, r["result"], r["s"], expect=r["expect"], detail=r.get("detail"),
                           sample=dict(config=label, query=r["q"], result=r["result"]))
                if r["expect"] == "sat":
                    if r["result"] != "sat":
                        ctx.inconclusive.append("%s: witness unsatisfiable" % ql)
                    continue
                if r["result"] == "sat" and not r["q"].startswith("witness"):
                    path = ctx.write_replay(label, r["q"].split("(")[0], dict(masked=str(masked), model=r.get("model")))
                    ctx.violation(label, r["q"].split("(")[0], path)
    if not ctx.only or ctx.only.search("lpddr5_phy_command_buffer"):
        ctx.add("lpddr5_phy_command_buffer", 6 if ctx.tier == "quick" else 10, timeout=600, diff_cycles=6)
    for n, (kq, kt, tiers) in PIPE_K.items():
        if ctx.only and not ctx.only.search(n):
            continue
        if ctx.tier == "quick" and "q" in tiers:
            ctx.add(n, kq, timeout=900, diff_cycles=6)
        elif ctx.tier == "thorough":
            ctx.add(n, kt, timeout=3000, diff_cycles=8)
    ctx.run()
