"""C01 -- every read returns the last bytes written (whole core): decomposed, control-only form (B) of DESIGN.md."""
from functools import partial
from migen import *
from vlib import corebench, monitors

FILES = ["litedram/core/crossbar.py", "litedram/core/bankmachine.py", "litedram/core/multiplexer.py",
         "litedram/core/controller.py", "litedram/common.py"]
LEVEL = "model_checking"
TECHNIQUE = ("bounded model checking (z3 QF_BV) of the elaborated real crossbar+controller with an ordinal-matching monitor "
             "(symbolic marked port/ordinal), DFI bank-state reference, data-path routing check; replay on migen.sim")
EXPLANATION = ("A marked command (symbolic port PSEL, marked at an acceptance the solver chooses) is followed from the native port to "
               "the DFI by queue position: the CAS of its bank that finds zero older outstanding requests must carry its direction "
               "and column while the row open in that bank (reconstructed from DFI ACT/PRE only) is its row; the strobe of its "
               "direction on its port that finds zero older outstanding commands must fall exactly write/read-latency cycles "
               "after that CAS so that the DFI data phases carry this command's data; in strobe cycles the DFI write data/mask equal "
               "the strobed port's data/~we and read data is passed through; no CAS without outstanding request, no strobe without "
               "outstanding command.  Together with a DRAM that obeys its command semantics (C02/C19) "
               "this implies read-your-writes per byte, per-port order and cross-port order by acceptance.")


def _extra(core, top, mon, kw, ncmd=None):
    ps, gs = core.phy_settings, core.geom_settings
    if ncmd is not None:
        # small-scope restriction: at most `ncmd` commands are accepted in the whole window (any ports, any timing, any addresses)
        tot = Signal(max=ncmd + 2)
        nacc = sum([p.cmd.valid & p.cmd.ready for p in core.ports[1:]], core.ports[0].cmd.valid & core.ports[0].cmd.ready)
        top.sync += tot.eq(Mux(tot + nacc > ncmd, ncmd + 1, tot + nacc))
        a = Signal()
        top.comb += a.eq(tot + nacc <= ncmd)
        kw["assumes"]["at_most_%d_commands_in_the_window" % ncmd] = a
    align = core.controller.interface.address_align
    # monitor counters must hold everything the core can have outstanding: per bank the command FIFO, its output stage, the
    # look-ahead entry and one command in flight, for all banks, plus the data pipelines
    cs_ = core.ctrl_settings
    cap = (2 ** gs.bankbits) * (cs_.cmd_buffer_depth + 3 + (1 if cs_.cmd_buffer_buffered else 0)) + ps.read_latency + ps.write_latency + 4
    om = monitors.TrackMonitor(core.ports, core.dfi, mon, gs.colbits, gs.bankbits, align, cw=max(4, bits_for(cap + 2)),
                               write_latency=ps.write_latency, read_latency=ps.read_latency,
                               bank_byte_alignment=getattr(core.ctrl_settings, "bank_byte_alignment", 0))
    top.submodules.om = om
    kw["consts"]["PSEL"] = om.psel
    kw["inputs"]["mark"] = om.mark
    kw["bads"] = dict(om.bads)
    for k in ["act_to_open_bank", "cas_to_closed_bank"]:
        kw["bads"][k] = mon.bads[k]
    if len(core.ports) > 1:
        psel_ok = Signal()
        top.comb += psel_ok.eq(om.psel < len(core.ports))
        kw["assumes"]["psel_in_range"] = psel_ok
    kw["covers"]["marked_write_strobed"] = om.cov_marked_write_done
    kw["covers"]["marked_read_returned_queued_behind_two"] = om.cov_marked_queued_behind_two
    c2 = Signal()
    top.comb += c2.eq(om.cov_marked_read_done & mon.seen["ref"] & mon.seen["wr"])
    kw["covers"]["marked_read_after_refresh_and_write"] = c2


T_SMALL = dict(tRP=2, tRCD=2, tWR=2, tWTR=2, tREFI=100, tRFC=3, tFAW=None, tCCD=1, tRRD=None, tRC=None, tRAS=None)
T_FULL = dict(tRP=2, tRCD=2, tWR=2, tWTR=2, tREFI=100, tRFC=4, tFAW=6, tCCD=2, tRRD=2, tRC=6, tRAS=4)

CONFIGS = {
    "sdr_2b_2p": (dict(phy="sdr_fast", bankbits=1, nports=2, timing=T_SMALL, ctrl=dict(cmd_buffer_depth=4)), 16, 20, "qt"),
    "ddr3_1_4_2b_2p": (dict(phy="ddr3_fast", bankbits=1, nports=2, timing=T_SMALL, ctrl=dict(cmd_buffer_depth=4)), 15, 19, "qt"),
    "ddr_1_2_2b_2p_noap": (dict(phy="ddr3_fast2", bankbits=1, nports=2, timing=T_FULL, ctrl=dict(cmd_buffer_depth=4, with_auto_precharge=False)), 0, 18, "t"),
    "sdr_2b_2p_d1": (dict(phy="sdr_fast", bankbits=1, nports=2, timing=T_SMALL, ctrl=dict(cmd_buffer_depth=1)), 15, 18, "qt"),
    "sdr_4b_3p": (dict(phy="sdr_fast", bankbits=2, nports=3, timing=T_SMALL, ctrl=dict(cmd_buffer_depth=4)), 0, 16, "t"),
    "sdr_2b_2p_buffered": (dict(phy="sdr_fast", bankbits=1, nports=2, timing=T_SMALL, ctrl=dict(cmd_buffer_depth=4, cmd_buffer_buffered=True)), 0, 18, "t"),
    "sdr_2b_1p_depth8": (dict(phy="sdr_fast", bankbits=1, nports=1, timing=T_SMALL, ctrl=dict(cmd_buffer_depth=8)), 0, 20, "t"),
    "sdr_2b_2p_bba": (dict(phy="sdr_fast", bankbits=1, colbits=4, nports=2, timing=T_SMALL, ctrl=dict(cmd_buffer_depth=4, bank_byte_alignment=32)), 0, 18, "t"),
}

BENCH_NCMD = {}
for _k in (3, 4, 5):
    BENCH_NCMD["exp_ncmd%d" % _k] = _k
CONFIGS["exp_1p_d4"] = (dict(phy="sdr_fast", bankbits=1, nports=1, timing=T_SMALL, ctrl=dict(cmd_buffer_depth=4)), 0, 0, "")
CONFIGS["exp_2p_d2"] = (dict(phy="sdr_fast", bankbits=1, nports=2, timing=T_SMALL, ctrl=dict(cmd_buffer_depth=2)), 0, 0, "")
CONFIGS["exp_1p_d2"] = (dict(phy="sdr_fast", bankbits=1, nports=1, timing=T_SMALL, ctrl=dict(cmd_buffer_depth=2)), 0, 0, "")
CONFIGS["exp_1p_d2_norefresh"] = (dict(phy="sdr_fast", bankbits=1, nports=1, timing=T_SMALL, ctrl=dict(cmd_buffer_depth=2, with_refresh=False)), 0, 0, "")
BENCHES = {n: partial(corebench.core_bench, n, c[0], None, True, _extra) for n, c in CONFIGS.items()}
for _n, _k in BENCH_NCMD.items():
    BENCHES[_n] = partial(corebench.core_bench, _n, CONFIGS["sdr_2b_2p"][0], None, True, partial(_extra, ncmd=_k))


def run(ctx):
    ctx.assume("master contract: a command is held (valid, we, addr stable) until accepted; write data is whatever is on "
               "wdata in the strobe cycle (offered no later than the command and held); rdata.ready is ignored by the core")
    ctx.assume("DRAM obeys its command semantics at the DFI (the reference DRAM of C19); refresh timer phase symbolic")
    ctx.assume("reduced geometry (2-4 banks, 11 row bits, 4 column bits), 1-3 ports, single rank")
    for n, (c, kq, kt, tiers) in CONFIGS.items():
        if ctx.only and not ctx.only.search(n):
            continue
        if ctx.tier == "quick" and "q" in tiers:
            ctx.add(n, kq, timeout=900, min_K=kq - 2, first_chunk=11, chunk=1, cover_required=False)
        elif ctx.tier == "thorough":
            ctx.add(n, kt, timeout=3300, min_K=(kq - 1) if kq else 12, first_chunk=11, chunk=1, cover_required=False)
    ctx.run()
