"""C03 -- datasheet timing minimums on the DFI bus (DRAM clocks, phase positions included)."""
from functools import partial
from migen import *
from vlib import corebench, monitors, cfg, datasheet

FILES = ["litedram/common.py", "litedram/core/bankmachine.py", "litedram/core/multiplexer.py",
         "litedram/core/refresher.py", "litedram/modules.py", "litedram/core/controller.py"]
LEVEL = "model_checking"
TECHNIQUE = ("bounded model checking (z3 QF_BV) of the elaborated real controller configured by the real module classes; "
             "DFI timing monitor with requirements computed in exact rationals from the datasheet tables; replay on migen.sim")
EXPLANATION = ("Controller+crossbar elaborated with TimingSettings produced by the real SDRAMModule subclasses at a real "
               "clock/rate (geometry reduced); a Migen monitor measures, in DRAM clocks with phase positions, the spacing of "
               "every command pair on the DFI bus against requirements derived independently from the class tables.")

TIMING_BADS = ["tRCD", "tRP", "tRP_ap_rd", "tRAS", "tRAS_prea", "tRAS_ap", "tRC", "tRRD", "tFAW", "tCCD", "tWR",
               "tWR_prea", "tWR_ap", "tWTR", "tRFC", "tRP_ref", "tZQCS"]


def module_bench(name, module_name, clk_freq, rate, speedgrade=None, bankbits=1, nports=2, ctrl=None,
                 read_latency=None, colbits=4):
    from litedram import modules
    from litedram.phy.model import get_sdram_phy_settings
    cls = getattr(modules, module_name)
    m = cls(clk_freq, rate, speedgrade=speedgrade)
    ref = get_sdram_phy_settings(cls.memtype, 4, clk_freq)
    assert "1:%d" % ref.nphases == rate, (rate, ref.nphases)
    ps = cfg.phy_settings(memtype=cls.memtype, nphases=ref.nphases, rdphase=ref.rdphase, wrphase=ref.wrphase,
                          cl=ref.cl, cwl=ref.cwl if cls.memtype not in ("SDR", "DDR", "LPDDR") else None,
                          read_latency=read_latency if read_latency is not None else ref.read_latency,
                          write_latency=ref.write_latency, dfi_databits=8)
    req, info = datasheet.dram_requirements(cls, clk_freq, ref.nphases, ps.cwl, speedgrade)
    ts = m.timing_settings
    info["timing_settings_cycles"] = {k: getattr(ts, k) for k in
                                      ["tRP", "tRCD", "tWR", "tWTR", "tREFI", "tRFC", "tFAW", "tCCD", "tRRD", "tRC", "tRAS", "tZQCS"]}
    info["module"] = module_name
    info["clk_freq"] = clk_freq
    info["rate"] = rate
    c = dict(cmd_buffer_depth=4)
    c.update(ctrl or {})
    ck = dict(phy=ps, bankbits=bankbits, rowbits=11, colbits=colbits, nports=nports, timing=ts, ctrl=c, clk_freq=clk_freq)

    def extra(core, top, mon, kw):
        kw["bads"] = {k: v for k, v in mon.bads.items() if k in TIMING_BADS}
        cov = Signal()
        top.comb += cov.eq(mon.now["ref"] & mon.seen["wr"] & mon.seen["rd"] & mon.seen["act"])
        kw["covers"]["refresh_issued_after_reads_and_writes"] = cov
        prea_open = Signal()
        top.comb += prea_open.eq(mon.now["prea"] & monitors.any_([o for r in mon.open for o in r]))
        kw["covers"]["refresh_precharge_all_closes_an_open_row"] = prea_open
    return corebench.core_bench(name, ck, req, False, extra, info=info)


def txxd_bench(name, T):
    """unit level, unbounded in time by k-induction: the real tXXDController keeps `ready` low until T cycles have passed
    since the last `valid`"""
    from vlib import bmc
    from litedram.common import tXXDController

    class Top(Module):
        pass
    top = Top()
    top.submodules.dut = dut = tXXDController(T)
    W = bits_for(T + 2)
    age = Signal(W, reset=T + 1)     # cycles since the last valid (saturating)
    top.sync += age.eq(Mux(dut.valid, 1, Mux(age >= T + 1, age, age + 1)))
    b = Signal()
    top.comb += b.eq(dut.ready & (age < T))
    c = Signal()
    top.comb += c.eq(dut.ready & (age == T))
    return bmc.Bench(name, top, {"valid": dut.valid}, bads={"ready_before_T_cycles_after_valid": b},
                     covers={"ready_exactly_T_cycles_after_valid": c}, info=dict(T=T))


def tfaw_bench(name, T):
    """unit level, k-induction: with the real tFAWController gating activates, no five activates fall into T cycles"""
    from vlib import bmc
    from litedram.common import tFAWController

    class Top(Module):
        pass
    top = Top()
    top.submodules.dut = dut = tFAWController(T)
    W = bits_for(T + 2)
    ages = [Signal(W, reset=T + 1) for _ in range(4)]     # ages of the last four activates, [0] newest
    inc = lambda a: Mux(a >= T + 1, a, a + 1)
    act = Signal()
    top.comb += act.eq(dut.valid)
    top.sync += [ages[0].eq(Mux(act, 1, inc(ages[0])))] + [ages[i].eq(Mux(act, inc(ages[i - 1]), inc(ages[i]))) for i in range(1, 4)]
    b = Signal()
    top.comb += b.eq(act & (ages[3] < T))
    a = Signal()
    top.comb += a.eq(~dut.valid | dut.ready)      # the multiplexer only activates while ready
    c = Signal()
    top.comb += c.eq(act & (ages[2] < T) & (ages[3] >= T))
    return bmc.Bench(name, top, {"valid": dut.valid}, assumes={"activate_only_when_ready": a},
                     bads={"fifth_activate_inside_the_tFAW_window": b},
                     covers={"fourth_activate_inside_the_window_of_the_previous_three_is_allowed": c}, info=dict(tFAW=T))


UNITS = {}
for _T in (1, 2, 3, 4, 6, 9, 13):
    UNITS["unit_tXXD_%d" % _T] = (txxd_bench, _T)
for _T in (4, 5, 7, 10):
    UNITS["unit_tFAW_%d" % _T] = (tfaw_bench, _T)

CONFIGS = {
    # name: (kwargs, Kq, Kt, tiers)
    "MT48LC16M16_sdr_100MHz": (dict(module_name="MT48LC16M16", clk_freq=100e6, rate="1:1", read_latency=2), 44, 60, "qt"),
    "MT41K128M16_ddr3_1to4_100MHz": (dict(module_name="MT41K128M16", clk_freq=100e6, rate="1:4", speedgrade="1600", read_latency=3), 50, 64, "qt"),
    "MT41K128M16_ddr3_1to4_200MHz": (dict(module_name="MT41K128M16", clk_freq=200e6, rate="1:4", speedgrade="1600", read_latency=3), 40, 80, "qt"),
    "MT47H64M16_ddr2_1to2_133MHz": (dict(module_name="MT47H64M16", clk_freq=133e6, rate="1:2", read_latency=3), 0, 60, "t"),
    "MT46V32M16_ddr_1to2_100MHz": (dict(module_name="MT46V32M16", clk_freq=100e6, rate="1:2", read_latency=3), 0, 56, "t"),
    "MT41K128M16_ddr3_1to4_125MHz_noap": (dict(module_name="MT41K128M16", clk_freq=125e6, rate="1:4", speedgrade="1600", read_latency=3,
                                               ctrl=dict(with_auto_precharge=False)), 0, 64, "t"),
    "MT41K128M16_ddr3_1to4_100MHz_4b": (dict(module_name="MT41K128M16", clk_freq=100e6, rate="1:4", speedgrade="1600", read_latency=3,
                                             bankbits=2, nports=2), 0, 56, "t"),
}

BENCHES = {n: partial(module_bench, n, **c[0]) for n, c in CONFIGS.items()}
BENCHES.update({n: partial(fn, n, T) for n, (fn, T) in UNITS.items()})


def run(ctx):
    ctx.assume("ports: completely unconstrained inputs every cycle")
    ctx.assume("refresh timer starts at any in-range value (reachable from reset by idling)")
    ctx.assume("geometry reduced to 2-4 banks, 11 row bits, 4 column bits; timings and clock are the real module's")
    ctx.assume("PHY pipeline read_latency shortened to 2-3 cycles (only lengthens the read-to-write turnaround, "
               "which is not among the listed spacings)")
    ctx.assume("read-to-precharge (tRTP) is not in the property's list and is not checked")
    ctx.assume("unit benches (tXXD/tFAW controllers): base case BMC from reset + k-induction step from a fully symbolic state "
               "(k = T+2); a closed step makes the spacing claim unbounded in time for that cycle value")
    for n, (fn, T) in UNITS.items():
        if ctx.only and not ctx.only.search(n):
            continue
        ctx.add(n, 2 * T + 6, timeout=300, induction=T + 2, diff_cycles=8)
    for n, (c, kq, kt, tiers) in CONFIGS.items():
        if ctx.only and not ctx.only.search(n):
            continue
        if ctx.tier == "quick" and "q" in tiers:
            ctx.add(n, kq, timeout=1200)
        elif ctx.tier == "thorough":
            if not kq and "ddr2" not in n and not ctx.only:
                continue      # the remaining module benches are built on demand (--only) but are too heavy for a bounded thorough run
            ctx.add(n, kq or 30, timeout=1200)      # thorough = one more memory type at the quick depth (deeper windows ran past 40 min)
    ctx.run()
