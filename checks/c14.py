"""C14 -- BIST reports exactly the words that differ."""
from functools import partial
import re
from migen import *
from litedram.common import LiteDRAMNativePort
from vlib import bmc, monitors
from checks.c12 import _bad_adder

FILES = ["litedram/frontend/bist.py", "litedram/frontend/dma.py"]
LEVEL = "model_checking"
TECHNIQUE = ("bounded model checking (z3 QF_BV) of the elaborated real _LiteDRAMBISTGenerator and _LiteDRAMBISTChecker running "
             "side by side with symbolic base/end/length/random flags, arbitrary memory contents (every read word a fresh solver "
             "variable = every corruption set at once) and arbitrary memory timing, native and AXI ports; product benches of two copies "
             "for 'a core reset rewinds the sequence'; replay on migen.sim")
EXPLANATION = ("Generator and checker are started with the same symbolic settings.  The generator's k-th address is logged at the "
               "port and its k-th word where it enters the DMA writer, the checker's k-th returned word where it leaves the DMA reader "
               "(in-order transport inside the DMA engines is C12's subject); the checker's k-th read address must equal it and its error count at done must equal the number of "
               "positions whose returned word (free input per read) differs from the generator's k-th word -- for all contents, "
               "so 'faithful memory => 0' and 'k corrupted words => k' are special cases.  The generator may only report done after "
               "its last data beat has been taken, and its addresses must lie in [base, end).")

NMAX = 3


class OrderStub(Module):
    """in-order native stub; write side takes data by pulse, read side returns FREE data (arbitrary memory contents)"""
    def __init__(self, port, read, name, depth=3, min_latency=2):
        self.inputs = {}
        self.bads = {}
        stall = Signal(name_override=name + "_cmd_stall")
        go = Signal(name_override=name + "_resp_go")
        self.inputs[name + "_cmd_stall"] = stall
        self.inputs[name + "_resp_go"] = go
        level = Signal(max=depth + 1)
        ages = [Signal(max=min_latency + 1) for _ in range(depth)]
        acc = Signal()
        resp = Signal()
        self.comb += [port.cmd.ready.eq((level != depth) & ~stall), acc.eq(port.cmd.valid & port.cmd.ready),
                      resp.eq((level != 0) & (ages[0] >= min_latency) & go)]
        inc = lambda x: Mux(x >= min_latency, x, x + 1)
        for i in range(depth):
            nxt = ages[i + 1] if i + 1 < depth else Constant(0, 1)
            self.sync += [If(resp, ages[i].eq(inc(nxt)), If(acc & (level == i + 1), ages[i].eq(1))
                             ).Else(ages[i].eq(inc(ages[i])), If(acc & (level == i), ages[i].eq(1)))]
        self.sync += level.eq(level + acc - resp)
        self.acc, self.resp, self.level = acc, resp, level
        bad = _bad_adder(self, self.bads)
        if read:
            data = Signal(len(port.rdata.data), name_override=name + "_rdata")
            self.inputs[name + "_rdata"] = data
            self.comb += [port.rdata.valid.eq(resp), port.rdata.data.eq(data)]
            bad(name + "_read_data_returned_while_checker_cannot_take_it", resp & ~port.rdata.ready)
        else:
            self.comb += port.wdata.ready.eq(resp)
            bad(name + "_write_data_taken_but_none_offered", resp & ~port.wdata.valid)


class AxiOrderStub(Module):
    """in-order AXI slave side: AW/W/B or AR/R with real handshakes; R returns FREE data (arbitrary contents), held until taken"""
    def __init__(self, port, read, name, depth=3, min_latency=2):
        self.inputs = {}
        self.bads = {}
        self.assumes = {}
        stall = Signal(name_override=name + "_cmd_stall")
        go = Signal(name_override=name + "_resp_go")
        self.inputs[name + "_cmd_stall"] = stall
        self.inputs[name + "_resp_go"] = go
        cmd = port.ar if read else port.aw
        level = Signal(max=depth + 1)
        ages = [Signal(max=min_latency + 1) for _ in range(depth)]
        acc = Signal()
        resp = Signal()
        avail = Signal()
        self.comb += [cmd.ready.eq((level != depth) & ~stall), acc.eq(cmd.valid & cmd.ready),
                      avail.eq((level != 0) & (ages[0] >= min_latency))]
        inc = lambda x: Mux(x >= min_latency, x, x + 1)
        for i in range(depth):
            nxt = ages[i + 1] if i + 1 < depth else Constant(0, 1)
            self.sync += [If(resp, ages[i].eq(inc(nxt)), If(acc & (level == i + 1), ages[i].eq(1))
                             ).Else(ages[i].eq(inc(ages[i])), If(acc & (level == i), ages[i].eq(1)))]
        self.sync += level.eq(level + acc - resp)
        self.acc, self.resp, self.level, self.cmd = acc, resp, level, cmd
        bad = _bad_adder(self, self.bads)
        bad(name + "_axi_access_is_not_one_full_width_beat", cmd.valid & ((cmd.len != 0) | (cmd.size != log2_int(len(port.w.data) // 8))))
        if read:
            data = Signal(len(port.r.data), name_override=name + "_rdata")
            self.inputs[name + "_rdata"] = data
            hold = Signal()
            self.comb += [port.r.valid.eq(avail & (go | hold)), port.r.data.eq(data), port.r.last.eq(1), resp.eq(port.r.valid & port.r.ready)]
            self.sync += hold.eq(port.r.valid & ~port.r.ready)
            c = monitors.StreamContract(port.r.valid, port.r.ready, [port.r.data])
            self.submodules += c
            self.assumes[name + "_r_payload_held_until_taken"] = c.ok
        else:
            # the slave takes the write data of its oldest accepted address whenever it likes (W is a real handshake)
            self.comb += [port.w.ready.eq(avail & go), resp.eq(port.w.valid & port.w.ready)]
            bv = Signal(name_override=name + "_b_valid")
            self.inputs[name + "_b_valid"] = bv
            self.comb += port.b.valid.eq(bv)
            bad(name + "_write_response_not_accepted", port.b.valid & ~port.b.ready)
            bad(name + "_write_strobes_not_all_set", port.w.valid & (port.w.strb != 2**(len(port.w.data) // 8) - 1))


def bist_bench(name, dw=16, aw=6, force=None, axi=False):
    from litedram.frontend.bist import _LiteDRAMBISTGenerator, _LiteDRAMBISTChecker
    ashift = log2_int(dw // 8)
    awidth = aw + ashift
    if axi:
        from litedram.frontend.axi import LiteDRAMAXIPort
        wp = LiteDRAMAXIPort(data_width=dw, address_width=awidth, id_width=1)
        rp = LiteDRAMAXIPort(data_width=dw, address_width=awidth, id_width=1)
    else:
        wp = LiteDRAMNativePort("write", aw, dw)
        rp = LiteDRAMNativePort("read", aw, dw)

    class Top(Module):
        pass
    top = Top()
    top.submodules.gen = gen = _LiteDRAMBISTGenerator(wp)
    top.submodules.chk = chk = _LiteDRAMBISTChecker(rp)
    if axi:
        top.submodules.ws = ws = AxiOrderStub(wp, False, "w")
        top.submodules.rs = rs = AxiOrderStub(rp, True, "r")
        wcmd, rcmd = wp.aw, rp.ar
        alog = awidth           # AXI: byte addresses
    else:
        top.submodules.ws = ws = OrderStub(wp, False, "w")
        top.submodules.rs = rs = OrderStub(rp, True, "r")
        wcmd, rcmd = wp.cmd, rp.cmd
        alog = aw
    base = Signal(awidth, name_override="BASE")
    end = Signal(awidth + 1, name_override="END")
    length = Signal(awidth, name_override="LENGTH")
    rnd_d = Signal(name_override="RANDOM_DATA")
    rnd_a = Signal(name_override="RANDOM_ADDR")
    start = Signal(name_override="start")
    top.comb += [gen.base.eq(base), gen.end.eq(end), gen.length.eq(length), gen.random_data.eq(rnd_d), gen.random_addr.eq(rnd_a),
                 chk.base.eq(base), chk.end.eq(end), chk.length.eq(length), chk.random_data.eq(rnd_d), chk.random_addr.eq(rnd_a),
                 gen.start.eq(start), chk.start.eq(start), gen.reset.eq(0), chk.reset.eq(0)]
    inputs = {"start": start}
    inputs.update(ws.inputs)
    inputs.update(rs.inputs)
    consts = {"BASE": base, "END": end, "LENGTH": length, "RANDOM_DATA": rnd_d, "RANDOM_ADDR": rnd_a}
    assumes = dict(getattr(ws, "assumes", {}))
    assumes.update(getattr(rs, "assumes", {}))

    def asm(n, e):
        s = Signal(name_override="asm_" + n)
        top.comb += s.eq(e)
        assumes[n] = s
    rng = Signal(awidth + 1)
    top.comb += rng.eq(end - base)
    nwords = Signal(awidth)
    top.comb += nwords.eq(length[ashift:])
    asm("range_is_a_power_of_two_of_at_least_one_word", (end > base) & ((rng & (rng - 1)) == 0) & (rng >= dw // 8) & (end <= 2**awidth))
    asm("base_and_length_word_aligned", (base[:ashift] == 0) & (length[:ashift] == 0) if ashift else 1)
    asm("length_1_to_%d_words" % NMAX, (nwords >= 1) & (nwords <= NMAX))
    # start is a single pulse at an arbitrary time, once
    started = Signal()
    top.sync += If(start, started.eq(1))
    asm("single_start_pulse", ~(start & started))
    if force:
        asm("forced_mode", (rnd_a == force.get("random_addr", 0)) & (rnd_d == force.get("random_data", 0)))
    # logs
    g_addr = [Signal(alog) for _ in range(NMAX)]
    g_data = [Signal(dw) for _ in range(NMAX)]
    c_addr = [Signal(alog) for _ in range(NMAX)]
    c_ret = [Signal(dw) for _ in range(NMAX)]
    gk = Signal(max=NMAX + 2)
    gd = Signal(max=NMAX + 2)
    ck = Signal(max=NMAX + 2)
    cd = Signal(max=NMAX + 2)
    # the k-th generated / checked word is logged at the DMA engines' stream side (in-order transport through the DMA FIFOs to
    # and from the port is C12's subject); port-side counters are kept for the completion clauses
    dma_w = [m for n_, m in gen._submodules if type(m).__name__ == "LiteDRAMDMAWriter"][0]
    dma_r = [m for n_, m in chk._submodules if type(m).__name__ == "LiteDRAMDMAReader"][0]
    gs = Signal()
    cs_ = Signal()
    top.comb += [gs.eq(dma_w.sink.valid & dma_w.sink.ready), cs_.eq(dma_r.source.valid & dma_r.source.ready)]
    gks = Signal(max=NMAX + 2)
    cds = Signal(max=NMAX + 2)
    top.sync += [
        If(ws.acc, gk.eq(gk + 1), *[If(gk == i, g_addr[i].eq(wcmd.addr)) for i in range(NMAX)]),
        If(ws.resp, gd.eq(gd + 1)),
        If(gs, gks.eq(gks + 1), *[If(gks == i, g_data[i].eq(dma_w.sink.data)) for i in range(NMAX)]),
        If(rs.acc, ck.eq(ck + 1), *[If(ck == i, c_addr[i].eq(rcmd.addr)) for i in range(NMAX)]),
        If(rs.resp, cd.eq(cd + 1)),
        If(cs_, cds.eq(cds + 1), *[If(cds == i, c_ret[i].eq(dma_r.source.data)) for i in range(NMAX)]),
    ]
    bads = dict(ws.bads)
    bads.update(rs.bads)
    bad = _bad_adder(top, bads)
    both_done = Signal()
    top.comb += both_done.eq(gen.done & chk.done)
    nmis = Signal(max=NMAX + 1)
    top.comb += nmis.eq(sum([((c_ret[i] != g_data[i]) & (i < nwords)) for i in range(1, NMAX)], (c_ret[0] != g_data[0]) & (0 < nwords)))
    bad("checker_error_count_differs_from_number_of_differing_positions", both_done & (chk.errors != nmis))
    bad("checker_reads_other_addresses_than_generator_wrote",
        both_done & monitors.any_([(c_addr[i] != g_addr[i]) & (i < nwords) for i in range(NMAX)]))
    bad("generator_done_before_all_data_beats_were_taken", gen.done & ((gd != nwords) | (gk != nwords)))
    bad("checker_done_before_all_words_were_read", chk.done & ((cd != nwords) | (ck != nwords)))
    bad("generator_writes_more_words_than_length", ws.acc & (gk >= nwords) & started)
    bad("checker_reads_more_words_than_length", rs.acc & (ck >= nwords) & started)
    # range clause
    byte_addr = wcmd.addr if axi else (Cat(Replicate(0, ashift), wcmd.addr) if ashift else wcmd.addr)
    if axi and ashift:
        bad("axi_address_not_word_aligned", (ws.acc & (wcmd.addr[:ashift] != 0)) | (rs.acc & (rcmd.addr[:ashift] != 0)))
    outside = ws.acc & ((byte_addr < base) | (byte_addr >= end))
    inside_case = (rnd_a == 0) & (nwords <= (rng >> ashift))
    bad("generator_address_outside_range_sequential_within_range", outside & inside_case)
    bad("generator_address_outside_range_random_or_wrapping", outside & ~inside_case)
    covers = {}

    def cov(n, e):
        s = Signal()
        top.comb += s.eq(e)
        covers[n] = s
    cov("both_done_with_one_of_two_or_more_words_differing", both_done & (nmis == 1) & (nwords >= 2))
    cov("both_done_no_difference", both_done & (nmis == 0) & (nwords >= 2))
    b = bmc.Bench(name, top, inputs, consts=consts, assumes=assumes, bads=bads, covers=covers, info=dict(dw=dw, aw=aw, nmax=NMAX))
    b.watch = {"gen_done": gen.done, "chk_done": chk.done, "errors": chk.errors, "gk": gk, "gd": gd, "ck": ck, "cd": cd,
               "w_addr": wcmd.addr, "w_acc": ws.acc, "r_addr": rcmd.addr, "r_acc": rs.acc}
    return b


def reset_equiv_bench(name, kind="gen", dw=16, aw=5):
    """A core reset must rewind generator/checker to their power-up behaviour (otherwise a second run after a reset would generate
    another sequence than the one the other side uses).  Two copies of the real core get identical inputs; BOTH start from
    arbitrary, independent register states (the power-up state is one of them) and see reset=1 in the first cycle.  From then on
    all their outputs (port command/data, done, errors, ticks) must be equal: a reset makes the past irrelevant."""
    from litedram.frontend.bist import _LiteDRAMBISTGenerator, _LiteDRAMBISTChecker
    mode = "write" if kind == "gen" else "read"
    pa = LiteDRAMNativePort(mode, aw, dw)
    pb = LiteDRAMNativePort(mode, aw, dw)
    cls = _LiteDRAMBISTGenerator if kind == "gen" else _LiteDRAMBISTChecker
    A, B = cls(pa), cls(pb)

    class Top(Module):
        pass
    top = Top()
    top.submodules.a = A
    top.submodules.b = B
    ashift = log2_int(dw // 8)
    awidth = aw + ashift
    consts = {}
    inputs = {}
    for n, w in (("BASE", awidth), ("END", awidth), ("LENGTH", awidth), ("RANDOM_DATA", 1), ("RANDOM_ADDR", 1)):
        c = Signal(w, name_override=n)
        consts[n] = c
        for core in (A, B):
            top.comb += getattr(core, {"BASE": "base", "END": "end", "LENGTH": "length", "RANDOM_DATA": "random_data",
                                       "RANDOM_ADDR": "random_addr"}[n]).eq(c)
    first = Signal(reset=1)
    top.sync += first.eq(0)
    start = Signal(name_override="start")
    inputs["start"] = start
    cready = Signal(name_override="cmd_ready")
    inputs["cmd_ready"] = cready
    for core, p in ((A, pa), (B, pb)):
        top.comb += [core.reset.eq(first), core.start.eq(start & ~first), p.cmd.ready.eq(cready)]
    if kind == "gen":
        wready = Signal(name_override="wdata_ready")
        inputs["wdata_ready"] = wready
        top.comb += [pa.wdata.ready.eq(wready), pb.wdata.ready.eq(wready)]
    else:
        rvalid = Signal(name_override="rdata_valid")
        rdata = Signal(dw, name_override="rdata_data")
        inputs.update({"rdata_valid": rvalid, "rdata_data": rdata})
        top.comb += [pa.rdata.valid.eq(rvalid), pb.rdata.valid.eq(rvalid), pa.rdata.data.eq(rdata), pb.rdata.data.eq(rdata)]
    bads = {}
    bad = _bad_adder(top, bads)
    live = Signal()
    top.comb += live.eq(~first)
    bad("done_or_ticks_differ_after_reset", live & ((A.done != B.done) | (A.ticks != B.ticks)))
    bad("port_command_differs_after_reset", live & ((pa.cmd.valid != pb.cmd.valid) | (pa.cmd.valid & ((pa.cmd.addr != pb.cmd.addr) | (pa.cmd.we != pb.cmd.we)))))
    if kind == "gen":
        bad("write_data_differs_after_reset", live & ((pa.wdata.valid != pb.wdata.valid) | (pa.wdata.valid & (pa.wdata.data != pb.wdata.data))))
    else:
        bad("error_count_or_read_ready_differs_after_reset", live & ((A.errors != B.errors) | (pa.rdata.ready != pb.rdata.ready)))
    covers = {}
    cv = Signal()
    if kind == "gen":
        top.comb += cv.eq(live & pa.wdata.valid & pa.wdata.ready & (pa.wdata.data != 0))
        covers["nonzero_word_written_after_reset"] = cv
    else:
        top.comb += cv.eq(live & (A.errors != 0))
        covers["error_counted_after_reset"] = cv
    b = bmc.Bench(name, top, inputs, consts=consts, free_all_except=[first], bads=bads, covers=covers,
                  info=dict(kind=kind, dw=dw, aw=aw))
    b.info["free_registers"] = len(b.free_init)
    b.watch = {"a_done": A.done, "b_done": B.done, "a_cv": pa.cmd.valid, "b_cv": pb.cmd.valid, "a_ca": pa.cmd.addr, "b_ca": pb.cmd.addr}
    return b


CONFIGS = {
    "native16_seq_seq": (dict(dw=16, aw=5, force=dict(random_addr=0, random_data=0)), 28, 40, "qt"),
    "native16_rnda_seq": (dict(dw=16, aw=5, force=dict(random_addr=1, random_data=0)), 28, 40, "qt"),
    "native16_seq_rndd": (dict(dw=16, aw=5, force=dict(random_addr=0, random_data=1)), 28, 40, "qt"),
    "native16_rnda_rndd": (dict(dw=16, aw=5, force=dict(random_addr=1, random_data=1)), 28, 40, "qt"),
    "axi16_seq_rndd": (dict(dw=16, aw=5, axi=True, force=dict(random_addr=0, random_data=1)), 28, 40, "qt"),
    "axi16_rnda_seq": (dict(dw=16, aw=5, axi=True, force=dict(random_addr=1, random_data=0)), 0, 40, "t"),
    "native16": (dict(dw=16, aw=6), 0, 36, "t"),
    "native32_seq": (dict(dw=32, aw=5, force=dict(random_addr=0, random_data=0)), 26, 40, "qt"),
    "native8": (dict(dw=8, aw=6), 0, 40, "t"),
}
BENCHES = {n: partial(bist_bench, n, **c[0]) for n, c in CONFIGS.items()}
RESET_BENCHES = {"reset_rewinds_generator": dict(kind="gen"), "reset_rewinds_checker": dict(kind="chk")}
BENCHES.update({n: partial(reset_equiv_bench, n, **kw) for n, kw in RESET_BENCHES.items()})


def run(ctx):
    ctx.assume("base/end/length/random flags symbolic constants; range a power of two >= one word, word aligned; length 1..4 words "
               "so that both runs complete inside the window; single start pulse at an arbitrary time")
    ctx.assume("memory: two independent in-order native stubs (arbitrary stalls, latency >= 2, <= 3 commands queued); every read "
               "word is a fresh solver variable (arbitrary contents / arbitrary corruption)")
    ctx.assume("native ports and (axi* benches) LiteDRAMAXIPort with real AW/W/B and AR/R handshakes; the pattern generator/checker "
               "variants and the CSR wrappers are not covered")
    ctx.assume("reset_rewinds_* benches: product of two copies of the real core, both from arbitrary independent register states, both reset in "
               "the first cycle, identical settings/start/port responses afterwards (any responses); FIFO storage words are not freed "
               "(they are unreachable while the FIFO is empty)")
    for n in RESET_BENCHES:
        if ctx.only and not ctx.only.search(n):
            continue
        ctx.add(n, 14 if ctx.tier == "quick" else 18, timeout=600, diff_cycles=8, min_K=14, chunk=2)
    for n, (kw, kq, kt, tiers) in CONFIGS.items():
        if ctx.only and not ctx.only.search(n):
            continue
        if ctx.tier == "quick" and "q" in tiers:
            ctx.add(n, kq, timeout=1500, min_K=22, chunk=3, cover_required=False)
        elif ctx.tier == "thorough":
            ctx.add(n, kt, timeout=3000, min_K=22, chunk=3, cover_required=False)
    ctx.run()
