#!/usr/bin/env python3
"""confirm a seeded change produced by a sub-agent: (1) demo passes on clean tree, fails with patch;
(2) full pinned suite: every stable_pass test of BASELINE.json still passes with the patch.
usage: confirm_seed.py <worktree> <seed-subdir> <seed-id>      -> writes /verif/seeded/<seed-id>/"""
import json, os, subprocess, sys, shutil, xml.etree.ElementTree as ET
wt, sub, sid = sys.argv[1], sys.argv[2], sys.argv[3]
sd = os.path.join(wt, "_seed", sub)
out = os.path.join("/verif/seeded", sid)
log = {}
def run(cmd, **kw):
    p = subprocess.run(cmd, shell=True, cwd=wt, stdout=subprocess.PIPE, stderr=subprocess.STDOUT, universal_newlines=True, **kw)
    return p.returncode, p.stdout
assert run("git status --short --untracked-files=no")[1].strip() == "", "worktree not clean"
rc, o = run("timeout 900 /venv/bin/python _seed/%s/demo.py" % sub)
log["demo_clean_exit"] = rc
rc2, o2 = run("git apply _seed/%s/patch.diff" % sub)
assert rc2 == 0, o2
try:
    rc, o = run("timeout 900 /venv/bin/python _seed/%s/demo.py" % sub)
    log["demo_patched_exit"] = rc
    log["demo_patched_tail"] = o[-600:]
    junit = "/tmp/junit_%s.xml" % sid
    rc, o = run("timeout 3000 /venv/bin/python -m pytest -q -p no:cacheprovider --timeout=900 --continue-on-collection-errors --junitxml=%s test/" % junit)
    log["suite_tail"] = o[-300:]
    passed = set()
    for tc in ET.parse(junit).getroot().iter("testcase"):
        if not list(tc):
            passed.add("%s::%s" % (tc.get("classname"), tc.get("name")))
    base = json.load(open("/root/.vp/BASELINE.json"))["stable_pass"]
    missing = [t for t in base if t not in passed]
    log["suite_stable_pass_missing"] = missing
finally:
    run("git checkout -- .")
ok = log["demo_clean_exit"] == 0 and log["demo_patched_exit"] != 0 and not log["suite_stable_pass_missing"]
log["confirmed"] = ok
os.makedirs(out, exist_ok=True)
shutil.copy(os.path.join(sd, "patch.diff"), out)
shutil.copy(os.path.join(sd, "demo.py"), out)
meta = json.load(open(os.path.join(sd, "meta.json")))
meta["confirmation"] = log
meta["what_i_ran"] = ["demo on clean worktree (exit %s)" % log["demo_clean_exit"], "demo with patch (exit %s)" % log["demo_patched_exit"],
                      "full pinned suite with patch: stable_pass tests missing = %d" % len(missing)]
json.dump(meta, open(os.path.join(out, "meta.json"), "w"), indent=1)
print(sid, "CONFIRMED" if ok else "NOT CONFIRMED", log["demo_clean_exit"], log["demo_patched_exit"], len(missing))
