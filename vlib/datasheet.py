"""Datasheet requirements in exact rational arithmetic, read from the module classes' own tables
(technology_timings / speedgrade_timings) -- deliberately NOT through SDRAMModule.ns_to_cycles."""
from fractions import Fraction
import math

from litedram.common import burst_lengths


def frac(x):
    if x is None:
        return None
    if isinstance(x, int):
        return Fraction(x)
    return Fraction(repr(float(x)))


def ck_ns(t, key=None):
    """normalise a table entry to (ck:int, ns:Fraction)"""
    if t is None:
        return None
    if isinstance(t, dict):
        t = t[key]
    if isinstance(t, tuple):
        ck, ns = t
    else:
        ck, ns = 0, t
    return (int(ck or 0), frac(ns or 0))


def table(module_cls, speedgrade=None, fine_refresh_mode=None):
    """dict name -> (ck, ns) from the class tables"""
    tt = module_cls.technology_timings
    sgs = module_cls.speedgrade_timings
    sg = sgs["default" if speedgrade is None else speedgrade]
    frm = fine_refresh_mode
    if frm is None and module_cls.memtype == "DDR4":
        frm = "1x"
    out = {}
    for n in ["tWTR", "tCCD", "tRRD", "tZQCS"]:
        out[n] = ck_ns(getattr(tt, n, None))
    out["tREFI"] = ck_ns(tt.tREFI, frm)
    for n in ["tRP", "tRCD", "tWR", "tFAW", "tRAS"]:
        out[n] = ck_ns(getattr(sg, n))
    out["tRFC"] = ck_ns(sg.tRFC, frm)
    return out


def ceil_frac(x):
    return -((-x.numerator) // x.denominator)


def clocks(entry, tck_ns):
    """minimum number of DRAM clocks covering a (ck, ns) requirement"""
    if entry is None:
        return None
    ck, ns = entry
    return max(ck, ceil_frac(ns / tck_ns))


def write_burst_clocks(memtype, cwl_phy):
    """(write latency, clocks from first data to the end of the write burst) per JEDEC family"""
    if memtype == "SDR":
        return 0, 0          # BL1, tWR counted from the clock of the (only) data-in
    if memtype in ("DDR", "LPDDR"):
        return 1, burst_lengths[memtype] // 2
    return cwl_phy, burst_lengths[memtype] // 2


def dram_requirements(module_cls, clk_freq, nphases, cwl_phy, speedgrade=None, fine_refresh_mode=None):
    """requirements in DRAM clocks for vlib.monitors.DFIMonitor"""
    tck = Fraction(10**9) / (Fraction(clk_freq) * nphases)
    tb = table(module_cls, speedgrade, fine_refresh_mode)
    wl, burst = write_burst_clocks(module_cls.memtype, cwl_phy)
    req = {}
    for n in ["tRCD", "tRP", "tRAS", "tRRD", "tFAW", "tCCD", "tRFC", "tZQCS"]:
        req[n] = clocks(tb[n], tck)
    if tb["tRAS"] is not None:
        ckp, nsp = tb["tRP"]
        cka, nsa = tb["tRAS"]
        req["tRC"] = max(ckp + cka, ceil_frac((nsp + nsa) / tck))
    else:
        req["tRC"] = None
    req["tWR_total"] = wl + burst + clocks(tb["tWR"], tck)
    req["tWTR_total"] = wl + burst + clocks(tb["tWTR"], tck)
    return req, dict(tck_ns=str(tck), table={k: (None if v is None else [v[0], str(v[1])]) for k, v in tb.items()},
                     write_latency_clocks=wl, write_burst_clocks=burst)
