#!/usr/bin/env python3
"""regenerates /verif/MANIFEST.json from the check modules present (keeps it valid at all times)"""
import json, os, importlib, sys
sys.path.insert(0, "/repo"); sys.path.insert(0, "/verif")
V = "/verif"
props = [json.loads(l) for l in open(os.path.join(V, "properties.jsonl"))]
NOTES = json.load(open(os.path.join(V, "scripts", "manifest_notes.json")))
checks, na = [], []
for p in props:
    pid = p["id"]
    f = os.path.join(V, "checks", pid.lower() + ".py")
    n = NOTES.get(pid, {})
    if os.path.exists(f) and not n.get("disabled"):
        src = open(f).read()
        def const(name, default=""):
            import ast
            for node in ast.parse(src).body:
                if isinstance(node, ast.Assign) and getattr(node.targets[0], "id", None) == name:
                    return ast.literal_eval(node.value)
            return default
        level = const("LEVEL", "model_checking")
        checks.append(dict(
            property_id=pid,
            quick_cmd="./check %s --tier quick" % pid,
            thorough_cmd="./check %s --tier thorough" % pid,
            evidence_file="/verif/evidence/%s.json" % pid,
            replay_cmd_template="./check %s --replay {path}" % pid,
            engine=n.get("engine", "fhdl2smt"),
            level_claimed=dict(category=level, text=n.get("level_text", const("EXPLANATION")), design_ref="DESIGN.md section 1, %s" % pid),
            level_note=n.get("level_note", "Trusted: Migen elaboration of the real constructors, the fhdl2smt translator (validated on every run against "
                                           "migen.sim's Evaluator on random stimulus), z3; bounds and assumptions are listed in the evidence file."),
            technique=const("TECHNIQUE"),
        ))
    else:
        na.append(dict(property_id=pid, reason=n.get("na_reason", "check not built yet in this round (solver-based harness pending)")))
m = dict(
    version=1,
    setup_cmd="./setup.sh",
    hooks=dict(guard="LITEDRAM_VERIF", enable="no hooks: checks read the elaborated FHDL of the unmodified sources (guard name reserved, unused)",
               baseline_off_cmd="cd /repo && /venv/bin/python -m pytest -q -p no:cacheprovider --timeout=900 --continue-on-collection-errors test/",
               source_commits=[], add_only=True),
    engines=[
        dict(name="fhdl2smt", path="vlib/fhdl2smt.py", serves_properties=[c["property_id"] for c in checks if c["engine"] == "fhdl2smt"],
             kind_free_text="symbolic execution of elaborated Migen FHDL into z3 QF_BV (python-exact migen.sim semantics); BMC, k-induction, combinational validity; replay on migen.sim Evaluator"),
        dict(name="pysym", path="vlib/pysym.py", serves_properties=[c["property_id"] for c in checks if c["engine"] == "pysym"],
             kind_free_text="symbolic execution of the real Python functions (modules.py / init.py) with z3 proxy values and AST instrumentation"),
    ],
    checks=checks,
    not_applicable=na,
    notes="Solver-based checking of the real code; see DESIGN.md.  Known findings: known_findings.json.",
)
json.dump(m, open(os.path.join(V, "MANIFEST.json"), "w"), indent=1)
import jsonschema
jsonschema.validate(m, json.load(open("/root/.vp/MANIFEST.schema.json")))
print("manifest ok: %d checks, %d not_applicable" % (len(checks), len(na)))
