"""C15 -- ECC port corrects any single and flags any double bit error."""
import multiprocessing
import time
import concurrent.futures as cf
import z3
from migen import *

FILES = ["litedram/frontend/ecc.py"]
LEVEL = "model_checking"
TECHNIQUE = ("combinational validity queries (z3 QF_BV) on the elaborated real ECC write path -> symbolic flip vector -> real ECC "
             "read path; all data words, all flip positions, all byte enables symbolic; counterexamples re-evaluated on migen.sim")
EXPLANATION = ("LiteDRAMNativePortECCW (LiteX ECCEncoder per lane) and LiteDRAMNativePortECCR (ECCDecoder per lane) are "
               "elaborated at full width and connected through an XOR with a free flip vector.  One-hot and two-hot flips are "
               "expressed with bit tricks (f & (f-1)) so a single query covers every position in every lane, with arbitrary "
               "flips allowed in the other lanes.  Byte-enable widening and the granularity error flag are compared with an "
               "independent per-lane reference.")

CONFIGS_Q = [(64, 72, 1), (128, 144, 2), (32, 39, 1), (64, 80, 2), (16, 22, 1), (8, 13, 1)]
CONFIGS_T = CONFIGS_Q + [(512, 576, 8), (256, 288, 4), (256, 312, 8), (64, 104, 8), (128, 176, 8)]


def build(dfrom, dto, burst):
    from litedram.frontend.ecc import LiteDRAMNativePortECCW, LiteDRAMNativePortECCR

    class Top(Module):
        pass
    top = Top()
    top.submodules.w = w = LiteDRAMNativePortECCW(dfrom, dto, burst)
    top.submodules.r = r = LiteDRAMNativePortECCR(dfrom, dto, burst)
    flip = Signal(dto, name_override="flip")
    top.comb += [r.sink.data.eq(w.source.data ^ flip), r.sink.valid.eq(1), r.enable.eq(1)]
    top.flip = flip
    return top


def lane_job(cfg):
    from vlib.fhdl2smt import Design, RefSim
    from litex.soc.cores.ecc import compute_m_n
    dfrom, dto, burst = cfg
    label = "ecc_%d_to_%d_x%d" % (dfrom, dto, burst)
    recs = []
    t00 = time.time()
    try:
        top = build(*cfg)
        w, r, flip = top.w, top.r, top.flip
        ins = [w.sink.data, w.sink.we, w.sink.valid, w.source.ready, r.source.ready, flip]
        d = Design(top, inputs=ins)
        kf, kt = dfrom // burst, dto // burst
        m, n = compute_m_n(kf)
        used = n + 1
        D = d._tvars[w.sink.data]
        WE = d._tvars[w.sink.we]
        V = d._tvars[w.sink.valid]
        F = d._tvars[flip]
        out = d.sig_val(r.source.data).t
        sec = d.sig_val(r.sec).t
        ded = d.sig_val(r.ded).t
        swe = d.sig_val(w.source.we).t
        weerr = d.sig_val(w.we_error).t
        stored = d.sig_val(w.source.data).t

        def solve(q, *cons, expect="unsat"):
            s = z3.Solver()
            s.set("timeout", 600000)
            s.add(*cons)
            t0 = time.time()
            res = str(s.check())
            rec = dict(q=q, result=res, s=round(time.time() - t0, 2), expect=expect)
            if res == "sat":
                mdl = s.model()
                rec["model"] = {x: mdl.eval(v, model_completion=True).as_long() for x, v in
                                [("data", D), ("we", WE), ("valid", V), ("flip", F)]}
            recs.append(rec)
        lanes_pad_zero = []
        for i in range(burst):
            f = z3.Extract((i + 1) * kt - 1, i * kt, F)
            if kt > used:
                lanes_pad_zero.append(z3.Extract(kt - 1, used, f) == 0)
        pad0 = z3.And(*lanes_pad_zero) if lanes_pad_zero else z3.BoolVal(True)
        solve("no_flip_returns_data_clean", F == 0, z3.Or(out != D, sec != 0, ded != 0))
        one_hot_bad, two_hot_bad, none_bad, we_bad = [], [], [], []
        for i in range(burst):
            f = z3.Extract((i + 1) * kt - 1, i * kt, F)
            o_i = z3.Extract((i + 1) * kf - 1, i * kf, out)
            d_i = z3.Extract((i + 1) * kf - 1, i * kf, D)
            sec_i = z3.Extract(i, i, sec)
            ded_i = z3.Extract(i, i, ded)
            g = f & (f - 1)
            is1 = z3.And(f != 0, g == 0)
            is2 = z3.And(g != 0, (g & (g - 1)) == 0)
            parity_flip = z3.Extract(0, 0, f) == 1
            one_hot_bad.append(z3.And(is1, z3.Or(o_i != d_i, ded_i != 0, sec_i != z3.If(parity_flip, z3.BitVecVal(0, 1), z3.BitVecVal(1, 1)))))
            two_hot_bad.append(z3.And(is2, z3.Or(ded_i != 1, sec_i != 0)))
            none_bad.append(z3.And(f == 0, z3.Or(o_i != d_i, ded_i != 0, sec_i != 0)))
        solve("single_flip_any_position_any_lane_is_corrected_and_counted", pad0, z3.Or(*one_hot_bad))
        solve("double_flip_any_positions_any_lane_is_flagged_uncorrectable", pad0, z3.Or(*two_hot_bad))
        solve("unflipped_lane_clean_whatever_happens_in_other_lanes", pad0, z3.Or(*none_bad))
        # witnesses
        f0 = z3.Extract(kt - 1, 0, F)
        g0 = f0 & (f0 - 1)
        solve("witness_double_flip_flagged", pad0, g0 != 0, (g0 & (g0 - 1)) == 0, z3.Extract(0, 0, ded) == 1, expect="sat")
        # byte enables
        bf, bt = kf // 8, kt // 8
        if kf % 8 == 0 and kt % 8 == 0 and bf > 0 and bt > 0:
            full_from = []
            for i in range(burst):
                we_i = z3.Extract((i + 1) * bf - 1, i * bf, WE)
                swe_i = z3.Extract((i + 1) * bt - 1, i * bt, swe)
                we_bad.append(swe_i != z3.If(we_i != 0, z3.BitVecVal(2**bt - 1, bt), z3.BitVecVal(0, bt)))
                full_from.append(we_i == 2**bf - 1)
            solve("stored_byte_enables_all_ones_iff_any_enable_in_lane", z3.Or(*we_bad))
            all_full = z3.And(*full_from)
            solve("full_write_is_not_a_granularity_error", V == 1, all_full, weerr != 0)
            solve("partial_write_is_a_granularity_error", V == 1, z3.Not(all_full), weerr != 1)
            solve("no_granularity_error_without_valid", V == 0, weerr != 0)
    except Exception as e:
        import traceback
        recs.append(dict(q="encode", result="unknown", s=0.0, expect="unsat", detail="%r\n%s" % (e, traceback.format_exc())))
    return label, cfg, recs, time.time() - t00


def reeval(cfg, model):
    """re-evaluate a counterexample with migen's Evaluator on a fresh elaboration"""
    from vlib.fhdl2smt import Design, RefSim
    top = build(*cfg)
    w, r, flip = top.w, top.r, top.flip
    ins = [w.sink.data, w.sink.we, w.sink.valid, w.source.ready, r.source.ready, flip]
    d = Design(top, inputs=ins)
    sim = RefSim(d)
    sim.set_inputs({w.sink.data: model["data"], w.sink.we: model["we"], w.sink.valid: model["valid"], flip: model["flip"]})
    return dict(data_in=model["data"], flip=model["flip"], we=model["we"], valid=model["valid"],
                stored=sim.get(w.source.data), stored_we=sim.get(w.source.we), we_error=sim.get(w.we_error),
                data_out=sim.get(r.source.data), sec=sim.get(r.sec), ded=sim.get(r.ded))


def confirm(cfg, q, rv):
    """independent python restatement of the violated clause on the re-evaluated values"""
    dfrom, dto, burst = cfg
    bf = dfrom // burst // 8
    if q == "full_write_is_not_a_granularity_error":
        return rv["valid"] == 1 and rv["we"] == 2**(dfrom // 8) - 1 and rv["we_error"] == 1
    if q == "partial_write_is_a_granularity_error":
        return rv["valid"] == 1 and rv["we"] != 2**(dfrom // 8) - 1 and rv["we_error"] == 0
    if q == "no_flip_returns_data_clean":
        return rv["flip"] == 0 and (rv["data_out"] != rv["data_in"] or rv["sec"] or rv["ded"])
    return True


def replay_custom(data):
    rv = reeval(tuple(data["config"]), data["model"])
    print("re-evaluated on migen Evaluator:", rv)
    ok = confirm(tuple(data["config"]), data["goal"], rv)
    if ok:
        print("VIOLATION property=C15 replay=%s" % data.get("path", "<file>"))
        return 1
    return 0


def counter_bench(name, dfrom=16, dto=26, burst=2):
    """sequential wrapper: real LiteDRAMNativePortECC; counters and sticky flags step by exactly the per-beat verdicts"""
    from functools import reduce
    from operator import or_
    from migen import Module, Signal, If, Mux
    from vlib import bmc, harness
    harness.patch_litex_csr_names()
    from litedram.common import LiteDRAMNativePort
    from litedram.frontend.ecc import LiteDRAMNativePortECC, LiteDRAMNativePortECCR
    pf = LiteDRAMNativePort("both", 8, dfrom)
    pt = LiteDRAMNativePort("both", 8, dto)

    class Top(Module):
        pass
    top = Top()
    top.submodules.dut = dut = LiteDRAMNativePortECC(pf, pt, burst_cycles=burst, with_we_error_detection=True)
    # reference verdicts: an own instance of the (combinationally verified) read path on the same stored word
    top.submodules.ref = ref = LiteDRAMNativePortECCR(dfrom, dto, burst)
    top.comb += [ref.sink.valid.eq(pt.rdata.valid), ref.sink.data.eq(pt.rdata.data), ref.enable.eq(dut.enable.storage),
                 ref.source.ready.eq(1)]
    inputs = {"rdata_valid": pt.rdata.valid, "rdata_data": pt.rdata.data, "user_rdata_ready": pf.rdata.ready,
              "clear": dut.clear.re, "enable": dut.enable.storage,
              "wdata_valid": pf.wdata.valid, "wdata_data": pf.wdata.data, "wdata_we": pf.wdata.we, "to_wdata_ready": pt.wdata.ready,
              "cmd_valid": pf.cmd.valid, "cmd_we": pf.cmd.we, "cmd_addr": pf.cmd.addr, "to_cmd_ready": pt.cmd.ready}
    beat = Signal()
    top.comb += beat.eq(pt.rdata.valid)      # the controller's read data is a pulse that does not wait for ready
    sec_now = Signal()
    ded_now = Signal()
    top.comb += [sec_now.eq(beat & (ref.sec != 0)), ded_now.eq(beat & (ref.ded != 0))]
    p = {k: Signal(32) for k in ("sec", "ded")}
    pf_ = {k: Signal() for k in ("sec", "ded", "secd", "dedd", "clr", "valid")}
    top.sync += [p["sec"].eq(dut.sec_errors.status), p["ded"].eq(dut.ded_errors.status), pf_["sec"].eq(sec_now), pf_["ded"].eq(ded_now),
                 pf_["secd"].eq(dut.sec_detected), pf_["dedd"].eq(dut.ded_detected), pf_["clr"].eq(dut.clear.re), pf_["valid"].eq(1)]
    bads = {}

    def bad(n, e):
        sg = Signal(name_override="bad_" + n)
        top.comb += sg.eq(e)
        bads[n] = sg
    exp_sec = Mux(pf_["clr"], 0, p["sec"] + pf_["sec"])
    exp_ded = Mux(pf_["clr"], 0, p["ded"] + pf_["ded"])
    bad("corrected_error_counter_does_not_step_by_the_beat_verdict", pf_["valid"] & (dut.sec_errors.status != exp_sec))
    bad("uncorrectable_error_counter_does_not_step_by_the_beat_verdict", pf_["valid"] & (dut.ded_errors.status != exp_ded))
    bad("sticky_corrected_flag_wrong", pf_["valid"] & (dut.sec_detected != Mux(pf_["clr"], 0, pf_["secd"] | pf_["sec"])))
    bad("sticky_uncorrectable_flag_wrong", pf_["valid"] & (dut.ded_detected != Mux(pf_["clr"], 0, pf_["dedd"] | pf_["ded"])))
    covers = {}
    c = Signal()
    top.comb += c.eq(pf_["sec"] & pf_["ded"] & (dut.sec_errors.status == 2))
    covers["beat_with_a_single_flip_in_one_lane_and_a_double_flip_in_another"] = c
    # the read data buffer of the wrapper must be able to take the beat (it is a 1-deep buffer): the memory side waits for ready
    a = Signal()
    top.comb += a.eq(1)
    b = bmc.Bench(name, top, inputs, assumes={"none": a}, bads=bads, covers=covers, info=dict(dfrom=dfrom, dto=dto, burst=burst))
    return b


from functools import partial as _partial
BENCHES = {"ecc_counters_16_26_x2": _partial(counter_bench, "ecc_counters_16_26_x2")}


def run(ctx):
    ctx.add("ecc_counters_16_26_x2", 6, timeout=600, diff_cycles=6)
    ctx.run()
    ctx.assume("sequential wrapper: real LiteDRAMNativePortECC with 2 lanes of 8 data bits; stored word, enable and clear strobe free "
               "per cycle; the per-beat verdicts come from a second instance of the real read path (whose correctness is the "
               "combinational part of this check); counters far from saturation (6 cycles from reset)")
    ctx.assume("flips restricted to the n+1 code bits of each lane when the stored lane is wider (padding bits are not code bits)")
    ctx.assume("combinational part: decoder enabled")
    cfgs = CONFIGS_Q if ctx.tier == "quick" else CONFIGS_T
    ctxm = multiprocessing.get_context("fork")
    with cf.ProcessPoolExecutor(max_workers=ctx.jobs_n, mp_context=ctxm) as ex:
        for label, cfg, recs, secs in ex.map(lane_job, cfgs, chunksize=1):
            for r in recs:
                ql = "%s:%s" % (label, r["q"])
                ctx.oblige(ql, r["result"], r["s"], expect=r["expect"], detail=r.get("detail"),
                           sample=dict(config=label, query=r["q"], result=r["result"], solver_s=r["s"]))
                if r["expect"] == "sat":
                    if r["result"] != "sat":
                        ctx.inconclusive.append("%s: witness unsatisfiable (vacuity guard)" % ql)
                    continue
                if r["result"] == "sat":
                    rv = reeval(cfg, r["model"])
                    if not confirm(cfg, r["q"], rv):
                        ctx.inconclusive.append("%s: model does not re-evaluate on migen.sim: %r" % (ql, rv))
                        continue
                    path = ctx.write_replay(label, r["q"], dict(config=list(cfg), model=r["model"], reevaluated=rv))
                    ctx.violation(label, r["q"], path)
    ctx.states = max(1, ctx.states)
