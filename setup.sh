#!/bin/bash
# offline: overlay venv on /venv with z3-solver, cvc5, crosshair-tool from the local wheelhouse
set -e
cd "$(dirname "$0")"
rm -rf .venv
/venv/bin/python -m venv .venv
echo "import site; site.addsitedir('/venv/lib/python3.12/site-packages')" > .venv/lib/python3.12/site-packages/_venv_overlay.pth
PIP_NO_INDEX=1 .venv/bin/pip install -q --no-index --find-links /opt/veriftools/wheels z3-solver cvc5 crosshair-tool
.venv/bin/python -c "import z3, migen, litex; print('verif venv ok, z3', z3.get_version_string())"
