#!/usr/bin/env python3
"""list the slowest queries of each evidence file (to keep required queries far from their timeouts)"""
import json, glob, sys
thr = float(sys.argv[1]) if len(sys.argv) > 1 else 150
for f in sorted(glob.glob('/verif/evidence/*.json')):
    d = json.load(open(f))
    q = d.get('coverage', {}).get('queries') or []
    slow = sorted([r for r in q if r.get('solver_s', 0) > thr], key=lambda r: -r['solver_s'])[:6]
    print(f.split('/')[-1], d.get('tier'), 'wall', round(d.get('wall_s', 0)), 'queries', len(q))
    for r in slow:
        print('     %-34s %-44s %-10s %-8s %7.1fs %s' % (r.get('bench', '')[:34], r.get('goal', '')[:44], r.get('frames'), r.get('result'), r['solver_s'], r.get('note', '')[:40]))
