#!/usr/bin/env python3
"""summarise scratch/seedrun_summary.log into seeded/RESULTS.md and the seeds' meta.json"""
import json, os, re, collections
res = collections.OrderedDict()
for l in open('/verif/scratch/seedrun_summary.log'):
    m = re.match(r"(C\d+_\d)(\(adapted\))? (C\d+) -> (\d+) violations; (.*)", l.strip())
    if not m: continue
    sid, ad, prop, n, tail = m.group(1), m.group(2), m.group(3), int(m.group(4)), m.group(5)
    ok = n > 0 and "exit=1" in tail
    res.setdefault(sid, {})[prop] = max(res.get(sid, {}).get(prop, False), ok)   # latest/any positive run
rows = []
for sid in sorted(os.listdir('/verif/seeded')):
    p = os.path.join('/verif/seeded', sid, 'meta.json')
    if not os.path.exists(p): continue
    meta = json.load(open(p))
    r = res.get(sid, {})
    caught = sorted(k for k, v in r.items() if v)
    tried = sorted(r.keys())
    meta["checks_run_against_it"] = tried
    meta["caught_by"] = caught
    json.dump(meta, open(p, 'w'), indent=1)
    rows.append((sid, meta.get("property", sid[:3]), (meta.get("summary") or "")[:110].replace("|", "/"), ", ".join(caught) if caught else "-- not caught --", ", ".join(tried)))
with open('/verif/seeded/RESULTS.md', 'w') as f:
    f.write("| seed | property | change | caught by | checks run |\n|---|---|---|---|---|\n")
    for r in rows: f.write("| %s | %s | %s | %s | %s |\n" % r)
print(open('/verif/seeded/RESULTS.md').read())
