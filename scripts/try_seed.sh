#!/bin/bash
# usage: try_seed.sh <patch.diff> <Cnn> [check args...]   -- runs a check against a scratch worktree of /repo with the patch applied
set -u
patch=$1; prop=$2; shift 2
wt=$(mktemp -d /tmp/seedtest_XXXXXX)
rmdir $wt
git -C /repo worktree add -q --detach $wt HEAD || exit 3
git -C $wt apply $patch || { git -C /repo worktree remove --force $wt; exit 3; }
VERIF_REPO=$wt /verif/check $prop "$@"
rc=$?
git -C /repo worktree remove --force $wt
echo "try_seed exit=$rc"
exit $rc
