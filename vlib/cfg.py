"""Configuration helpers: build real LiteDRAM settings objects / cores for harnesses."""
import math

from litedram.common import PhySettings, GeomSettings, TimingSettings, burst_lengths
from litedram.core.controller import ControllerSettings, LiteDRAMController
from litedram.core.crossbar import LiteDRAMCrossbar


def phy_settings(memtype="SDR", nphases=1, rdphase=0, wrphase=0, cl=2, cwl=None,
                 read_latency=4, write_latency=0, dfi_databits=8, nranks=1, databits=None):
    return PhySettings(
        phytype="verif", memtype=memtype,
        databits=databits if databits is not None else dfi_databits,
        dfi_databits=dfi_databits, nphases=nphases, rdphase=rdphase, wrphase=wrphase,
        cl=cl, cwl=cwl, read_latency=read_latency, write_latency=write_latency, nranks=nranks)


PHY_PRESETS = {
    # name: kwargs of phy_settings -- latencies follow litedram/phy/model.py:get_sdram_phy_settings
    "sdr_1_1":   dict(memtype="SDR", nphases=1, rdphase=0, wrphase=0, cl=2, cwl=None, read_latency=4, write_latency=0),
    "ddr_1_2":   dict(memtype="DDR", nphases=2, rdphase=0, wrphase=1, cl=3, cwl=None, read_latency=5, write_latency=0),
    "ddr2_1_2":  dict(memtype="DDR2", nphases=2, rdphase=1, wrphase=0, cl=3, cwl=2, read_latency=2 + 6, write_latency=1 - 1),
    "ddr3_1_4":  dict(memtype="DDR3", nphases=4, rdphase=2, wrphase=3, cl=6, cwl=5, read_latency=2 + 6, write_latency=2 - 1),
    "ddr3_1_2":  dict(memtype="DDR3", nphases=2, rdphase=0, wrphase=1, cl=6, cwl=5, read_latency=3 + 6, write_latency=3 - 1),
    "ddr4_1_4":  dict(memtype="DDR4", nphases=4, rdphase=3, wrphase=3, cl=9, cwl=9, read_latency=3 + 5, write_latency=3 - 1),
    # short latencies to keep BMC windows small (structure identical, only pipeline depths differ)
    "sdr_fast":  dict(memtype="SDR", nphases=1, rdphase=0, wrphase=0, cl=2, cwl=None, read_latency=2, write_latency=0),
    "ddr3_fast": dict(memtype="DDR3", nphases=4, rdphase=2, wrphase=3, cl=6, cwl=5, read_latency=3, write_latency=1),
    "ddr3_fast_wr0": dict(memtype="DDR3", nphases=4, rdphase=1, wrphase=0, cl=7, cwl=8, read_latency=3, write_latency=1),   # CWL multiple of nphases
    "ddr3_fast2": dict(memtype="DDR3", nphases=2, rdphase=0, wrphase=1, cl=6, cwl=5, read_latency=4, write_latency=2),
}


def timing_settings(tRP=2, tRCD=2, tWR=2, tWTR=2, tREFI=100, tRFC=4, tFAW=None, tCCD=1,
                    tRRD=None, tRC=None, tRAS=None, tZQCS=None):
    return TimingSettings(tRP=tRP, tRCD=tRCD, tWR=tWR, tWTR=tWTR, tREFI=tREFI, tRFC=tRFC, tFAW=tFAW,
                          tCCD=tCCD, tRRD=tRRD, tRC=tRC, tRAS=tRAS, tZQCS=tZQCS)


def make_core(phy="sdr_1_1", bankbits=1, rowbits=11, colbits=4, nports=2, timing=None, dfi_databits=8,
              nranks=1, ctrl=None, clk_freq=100e6, port_kwargs=None):
    """real LiteDRAMController + LiteDRAMCrossbar + nports native ports"""
    from migen import Module
    if isinstance(phy, PhySettings):
        ps = phy
    else:
        kw = dict(PHY_PRESETS[phy]) if isinstance(phy, str) else dict(phy)
        kw.update(dfi_databits=dfi_databits, nranks=nranks)
        if kw.get("memtype", "SDR") != "SDR" and "databits" not in kw:
            kw["databits"] = dfi_databits // 2      # DDR-type PHYs: two beats of `databits` per DFI phase
        ps = phy_settings(**kw)
    gs = GeomSettings(bankbits=bankbits, rowbits=rowbits, colbits=colbits)
    ts = timing if isinstance(timing, TimingSettings) else timing_settings(**(timing or {}))
    cs = ControllerSettings(**(ctrl or {}))

    class Core(Module):
        pass
    core = Core()
    core.submodules.controller = controller = LiteDRAMController(ps, gs, ts, clk_freq, cs)
    core.submodules.crossbar = crossbar = LiteDRAMCrossbar(controller.interface)
    core.ports = [crossbar.get_port(**((port_kwargs or [{}] * nports)[i])) for i in range(nports)]
    core.dfi = controller.dfi
    core.phy_settings, core.geom_settings, core.timing_settings, core.ctrl_settings = ps, gs, ts, cs
    return core
