"""C17 -- generated initialisation programs the DRAM consistently with the controller."""
import multiprocessing
import os
import time
import concurrent.futures as cf
from fractions import Fraction
import z3

FILES = ["litedram/init.py", "litedram/common.py", "litedram/modules.py"]
LEVEL = "other"
TECHNIQUE = ("symbolic execution of the real get_*_phy_init_sequence functions, re-compiled from their current source with dict "
             "literals and asserts instrumented, on finite-case symbolic CL/CWL/tWTR values (z3 conditions per case), linked to the "
             "symbolic SDRAMModule run of C16 (clock frequency a symbolic real); independent JEDEC mode-register decoders; one z3 "
             "query (LIA/LRA) per obligation; C/Python header renderings parsed back for witness configurations")
EXPLANATION = ("CL and CWL range over the (CL,CWL) pairs common.get_default_cl_cwl can return (recovered from the real function), "
               "tWTR/tWR/tCCD are the symbolic cycle counts the real module classes produce for a symbolic controller clock in their "
               "valid range.  The real init generators run on these values; every resulting mode-register value is a case list whose "
               "conditions are decided by z3 together with the module/clock constraints.  Decoders typed from the JEDEC mode register "
               "definitions (not from the tables in init.py) give BL, CL, CWL and write recovery back; table misses (KeyError) and "
               "failed asserts are recorded as reachable-or-not side conditions.  Independently of the module library (tWTR free over "
               "1..16, DDR3 1:2/1:4, DDR4 1:4/1:2) the JEDEC-decoded write recovery must be monotone in the controller's tWTR over the "
               "whole encoding table (two symbolic runs, replayed concretely).")
TOL = Fraction(1, 10**4)      # robust violations only: a 1e-4 relative shortfall, far above double rounding
DRAM_MIN_MHZ = {"DDR2": 125, "DDR3": 300, "DDR4": 625}   # JEDEC minimum DLL-on clock (tCK max 8 / 3.3 / 1.6 ns)

BL_CTRL = {"SDR": None, "DDR": 4, "LPDDR": 4, "DDR2": 4, "DDR3": 8, "DDR4": 8}

DDR3_CL = {0b0010: 5, 0b0100: 6, 0b0110: 7, 0b1000: 8, 0b1010: 9, 0b1100: 10, 0b1110: 11, 0b0001: 12, 0b0011: 13, 0b0101: 14}
DDR3_WR = {0: 16, 1: 5, 2: 6, 3: 7, 4: 8, 5: 10, 6: 12, 7: 14}
DDR4_CL = {0b00000: 9, 0b00001: 10, 0b00010: 11, 0b00011: 12, 0b00100: 13, 0b00101: 14, 0b00110: 15, 0b00111: 16, 0b01000: 18,
           0b01001: 20, 0b01010: 22, 0b01011: 24, 0b01100: 23, 0b01101: 17, 0b01110: 19, 0b01111: 21, 0b10000: 25, 0b10001: 26,
           0b10010: 27, 0b10011: 28, 0b10101: 30, 0b10111: 32}
DDR4_WR = {0: 10, 1: 12, 2: 14, 3: 16, 4: 18, 5: 20, 6: 24, 7: 22, 8: 26, 9: 28}
DDR4_CWL = {0: 9, 1: 10, 2: 11, 3: 12, 4: 14, 5: 16, 6: 18, 7: 20}


def bits(v, hi, lo):
    return (v >> lo) & ((1 << (hi - lo + 1)) - 1)


def decode_mr0(memtype, v):
    """JEDEC decode of the base mode register -> dict(bl, cl, wr) (None = reserved encoding)"""
    if v < 0:
        return dict(bl=None, cl=None, wr=None, reserved_bits=True)
    if memtype in ("SDR", "DDR", "LPDDR", "DDR2"):
        bl = {0: 1, 1: 2, 2: 4, 3: 8}.get(bits(v, 2, 0))
        clf = bits(v, 6, 4)
        if memtype == "SDR":
            cl = {2: 2, 3: 3}.get(clf)
        elif memtype == "DDR":
            cl = {2: 2, 3: 3, 6: 2.5}.get(clf)
        elif memtype == "LPDDR":
            cl = {2: 2, 3: 3}.get(clf)
        else:
            cl = {3: 3, 4: 4, 5: 5, 6: 6, 7: 7}.get(clf)
        wr = bits(v, 11, 9) + 1 if memtype == "DDR2" else None
        return dict(bl=bl, cl=cl, wr=wr, reserved_bits=bool(v >> (13 if memtype == "DDR2" else 9) if memtype != "DDR2" else v >> 13),
                    burst_type_interleaved=bits(v, 3, 3))
    if memtype == "DDR3":
        bl = {0: 8, 1: "otf", 2: 4}.get(bits(v, 1, 0))
        cl = DDR3_CL.get((bits(v, 6, 4) << 1) | bits(v, 2, 2))
        wr = DDR3_WR.get(bits(v, 11, 9))
        return dict(bl=bl, cl=cl, wr=wr, reserved_bits=bool(v >> 13) or bool(bits(v, 7, 7)))
    if memtype == "DDR4":
        bl = {0: 8, 1: "otf", 2: 4}.get(bits(v, 1, 0))
        cl = DDR4_CL.get((bits(v, 12, 12) << 4) | (bits(v, 6, 4) << 1) | bits(v, 2, 2))
        wr = DDR4_WR.get((bits(v, 13, 13) << 3) | bits(v, 11, 9))
        return dict(bl=bl, cl=cl, wr=wr, reserved_bits=bool(v >> 14) or bool(bits(v, 7, 7)))
    raise ValueError(memtype)


def decode_cwl(memtype, v):
    if v < 0:
        return None
    if memtype == "DDR3":
        return bits(v, 5, 3) + 5 if not (v & ~((7 << 3) | (3 << 9) | (3 << 6))) else None
    if memtype == "DDR4":
        return DDR4_CWL.get(bits(v, 5, 3)) if not (v & ~((7 << 3) | (7 << 9) | (3 << 6) | (1 << 12))) else None
    return None


def cl_cwl_rows(memtype):
    """(tck_lo, tck_hi, cl, cwl) rows of common.get_default_cl_cwl recovered from the REAL function by bisection"""
    from litedram.common import get_default_cl_cwl
    def f(tck):
        try:
            return get_default_cl_cwl(memtype, tck)
        except ValueError:
            return None
    hi = 1e-6
    lo = 1e-11
    pts = [lo * (hi / lo) ** (i / 4000) for i in range(4001)]
    rows = []
    cur = f(pts[0])
    start = pts[0]
    for a, b in zip(pts, pts[1:]):
        fb = f(b)
        if fb != cur:
            x, y = a, b
            for _ in range(80):
                m = (x + y) / 2
                if f(m) == cur:
                    x = m
                else:
                    y = m
            if cur is not None:
                rows.append((start, y, cur[0], cur[1]))
            start, cur = y, fb
    if cur is not None:
        rows.append((start, None, cur[0], cur[1]))
    return rows


class O:
    pass


_INIT = {}


def init_mod():
    from vlib import pysym, harness
    key = harness.REPO
    if key not in _INIT:
        _INIT[key] = pysym.load_instrumented(os.path.join(harness.REPO, "litedram", "init.py"), "litedram_init_instrumented")
    return _INIT[key]


def plain_job(memtype):
    """SDR/DDR/LPDDR/DDR2 + generic DDR3/DDR4 decode consistency with free tWTR (no module link)"""
    from vlib import pysym
    recs = []
    t0 = time.time()
    try:
        m = init_mod()
        rows = cl_cwl_rows(memtype)
        pairs = sorted({(r[2], r[3]) for r in rows}, key=repr)
        if memtype in ("DDR", "LPDDR"):
            pairs = [(2, None), (3, None)]      # no default table: the DDR/LPDDR PHYs use a fixed CL (3; 2 is the other JEDEC value)
        CL, CWL = z3.Int("CL"), z3.Int("CWL")
        dom = z3.Or(*[z3.And(CL == c, CWL == (w if w is not None else 0)) for c, w in pairs])
        for nph in ({"SDR": [1, 2, 4], "DDR": [2], "LPDDR": [2], "DDR2": [2], "DDR3": [2, 4], "DDR4": [4, 2]}[memtype]):
            ps, ts = O(), O()
            ps.cl = pysym.SymEnum.of_int_var(CL, sorted({c for c, w in pairs}))
            ps.cwl = pysym.SymEnum.of_int_var(CWL, sorted({w for c, w in pairs if w is not None})) if memtype in ("DDR3", "DDR4") else None
            ps.nphases = nph
            ps.memtype = memtype
            ps.is_rdimm = False
            TW = z3.Int("TWTR")
            ts.tWTR = pysym.SymEnum.of_int_var(TW, range(1, 17))
            ts.fine_refresh_mode = "1x"
            # free tWTR: only values that keep the generator inside its tables are assumed here; reachability of the
            # others is decided in the module-linked obligations
            fn = getattr(m, "get_%s_phy_init_sequence" % memtype.lower())
            with pysym.enum_run() as ectx:
                seq, _ = fn(ps, ts)
            label = "%s_1to%d" % (memtype, nph)
            bl_ctrl = nph if memtype == "SDR" else BL_CTRL[memtype]
            err_not_wr = [c for c, w in ectx.errors if "KeyError" not in w or "table [10, 12" not in w and "table [5, 6" not in w and "16]" not in w]
            solve(recs, label, "no_table_miss_or_failed_assert_for_selectable_cl_cwl", [dom, z3.Or(*[c for c, w in ectx.errors
                  if not _is_wr_miss(w)])] if any(not _is_wr_miss(w) for c, w in ectx.errors) else [z3.BoolVal(False)],
                  info="%d error sites" % len(ectx.errors))
            mr0s = [e for e in seq if e[3] == m.cmds["MODE_REGISTER"] and e[2] == 0]
            assert mr0s, "no MR0 write"
            bad_bl, bad_cl, bad_res = [], [], []
            for e in mr0s:
                a = e[1] if isinstance(e[1], pysym.SymEnum) else pysym.SymEnum([(z3.BoolVal(True), e[1])])
                for c, v in a.cases:
                    d = decode_mr0(memtype, v)
                    if d["bl"] != bl_ctrl:
                        bad_bl.append(c)
                    if d["cl"] is None or d["cl"] != int(d["cl"]):
                        bad_cl.append(c)
                    else:
                        bad_cl.append(z3.And(c, CL != int(d["cl"])))
                    if d.get("reserved_bits"):
                        bad_res.append(c)
            solve(recs, label, "mr0_burst_length_equals_controller_burst_length", [dom, z3.Or(*bad_bl)] if bad_bl else [z3.BoolVal(False)],
                  info="controller BL=%s" % bl_ctrl)
            solve(recs, label, "mr0_cas_latency_decodes_to_phy_cl", [dom, z3.Or(*bad_cl)] if bad_cl else [z3.BoolVal(False)])
            solve(recs, label, "mr0_fields_do_not_spill_into_reserved_bits", [dom, z3.Or(*bad_res)] if bad_res else [z3.BoolVal(False)])
            if memtype in ("DDR3", "DDR4"):
                mr2s = [e for e in seq if e[3] == m.cmds["MODE_REGISTER"] and e[2] == 2]
                bad = []
                for e in mr2s:
                    a = e[1] if isinstance(e[1], pysym.SymEnum) else pysym.SymEnum([(z3.BoolVal(True), e[1])])
                    for c, v in a.cases:
                        d = decode_cwl(memtype, v)
                        bad.append(c if d is None else z3.And(c, CWL != d))
                solve(recs, label, "mr2_cas_write_latency_decodes_to_phy_cwl", [dom, z3.Or(*bad)] if bad else [z3.BoolVal(False)])
            if memtype in ("DDR3", "DDR4"):
                # write-recovery table consistency over the WHOLE table (tWTR free, not only what the library modules reach): whatever
                # the generator derives WR from, a controller that waits longer must never get a shorter JEDEC-decoded write recovery
                TW2, WR1, WR2 = z3.Int("TWTR2"), z3.Int("WR1"), z3.Int("WR2")
                a = mr0s[-1][1] if isinstance(mr0s[-1][1], pysym.SymEnum) else pysym.SymEnum([(z3.BoolVal(True), mr0s[-1][1])])
                dec = [(c, decode_mr0(memtype, v)["wr"]) for c, v in a.cases]
                dec = [(c, w) for c, w in dec if w is not None]
                if dec:
                    one = [z3.Or(*[c for c, w in dec])] + [z3.Implies(c, WR1 == w) for c, w in dec]
                    two = [z3.substitute(x, (TW, TW2), (WR1, WR2)) for x in one]
                    mono = [dom] + one + two + [TW < TW2]
                    solve(recs, label, "mr0_write_recovery_decodes_monotonically_in_controller_twtr(whole_table)", mono + [WR1 > WR2],
                          extra=dict(plain=dict(memtype=memtype, nphases=nph)))
                    solve(recs, label, "witness_write_recovery_grows_with_twtr", mono + [WR1 < WR2], expect="sat")
            solve(recs, label, "witness_domain_nonempty", [dom], expect="sat")
    except Exception as e:
        import traceback
        recs.append(dict(bench=memtype, q="encode", result="unknown", s=0.0, expect="unsat", info="%r %s" % (e, traceback.format_exc()[-600:])))
    return memtype, recs, time.time() - t0


# ---- LPDDR4 / LPDDR5 -----------------------------------------------------------------------------------------------------------
# independent decoders (JESD209-4 MR1/MR2, JESD209-5 MR1/MR2; tables typed here, not taken from the repository)
LP4_NWR = {0: 6, 1: 10, 2: 16, 3: 20, 4: 24, 5: 30, 6: 34, 7: 40}
LP4_RL = {0: 6, 1: 10, 2: 14, 3: 20, 4: 24, 5: 28, 6: 32, 7: 36}          # DBI-RD disabled
LP4_WL_A = {0: 4, 1: 6, 2: 8, 3: 10, 4: 12, 5: 14, 6: 16, 7: 18}
LP4_BL = {0: 16, 1: 32, 2: "otf"}
LP4_TWR = Fraction(18, 10**9)
LP5_WL_A = {2: [4, 4, 6, 8, 8, 10], 4: [2, 2, 3, 4, 4, 5, 6, 6, 7, 8, 9, 9]}
LP5_RL_0 = {2: [6, 8, 10, 12, 16, 18], 4: [3, 4, 5, 6, 8, 9, 10, 12, 13, 15, 16, 17]}
LP5_NWR = {2: [5, 10, 14, 19, 24, 28], 4: [3, 5, 7, 10, 12, 14, 16, 19, 21, 24, 26, 28]}


def _nested_function(path, cls, meth, name, ns):
    """compile a function nested in cls.meth out of the CURRENT source (the LPDDR4 PHY keeps its latency table there)"""
    import ast
    tree = ast.parse(open(path).read())
    for c in tree.body:
        if isinstance(c, ast.ClassDef) and c.name == cls:
            for f in c.body:
                if isinstance(f, ast.FunctionDef) and f.name == meth:
                    for n in ast.walk(f):
                        if isinstance(n, ast.FunctionDef) and n.name == name:
                            mod = ast.Module(body=[n], type_ignores=[])
                            exec(compile(mod, path, "exec"), ns)
                            return ns[name]
    raise KeyError(name)


def _step_rows(f, lo=1e-11, hi=1e-6):
    """(tck_lo, tck_hi, value) rows of a step function of tck, recovered from the REAL function by bisection"""
    pts = [lo * (hi / lo) ** (i / 4000) for i in range(4001)]
    rows = []
    cur = f(pts[0])
    start = pts[0]
    for a, b in zip(pts, pts[1:]):
        fb = f(b)
        if fb != cur:
            x, y = a, b
            for _ in range(80):
                mid = (x + y) / 2
                if f(mid) == cur:
                    x = mid
                else:
                    y = mid
            if cur is not None:
                rows.append((start, y, cur))
            start, cur = y, fb
    if cur is not None:
        rows.append((start, None, cur))
    return rows


def _cases(v):
    from vlib import pysym
    return v.cases if isinstance(v, pysym.SymEnum) else [(z3.BoolVal(True), v)]


def lp_concrete(kind, cl, cwl, tck):
    """concrete re-run of the REAL (uninstrumented) generator: the set of goals violated for these latencies/clock"""
    from litedram import init as real_init
    ratio = None if kind == "LPDDR4" else int(kind[-1])
    rps = O()
    rps.cl, rps.cwl, rps.memtype, rps.nphases = cl, cwl, kind[:6], (8 if kind == "LPDDR4" else 1)
    if ratio:
        rps.wck_ck_ratio = ratio
    try:
        seq, _ = getattr(real_init, "get_%s_phy_init_sequence" % kind[:6].lower())(rps, O())
    except Exception as e:
        return {"no_table_miss_or_failed_assert_for_selectable_latencies"}, dict(exception=repr(e))
    mrw = {e[2]: e[1] for e in seq if e[3] == real_init.cmds["MODE_REGISTER"]}
    out = set()
    for ba in (1, 2):
        if ba not in mrw:
            out.add("mode_register_%d_written" % ba)
    if any(not (0 <= v < 256) for v in mrw.values()):
        out.add("mode_register_opcode_fits_8_bits")
    v1, v2 = mrw.get(1, 0), mrw.get(2, 0)
    if kind == "LPDDR4":
        if LP4_BL.get(bits(v1, 1, 0)) != 16:
            out.add("mr1_burst_length_is_16")
        if LP4_NWR[bits(v1, 6, 4)] * Fraction(tck) < LP4_TWR * (1 - TOL):
            out.add("mr1_nwr_covers_tWR_18ns_at_every_clock_selecting_this_latency")
        if LP4_RL[bits(v2, 2, 0)] != cl:
            out.add("mr2_rl_decodes_to_phy_cl")
        if LP4_WL_A[bits(v2, 5, 3)] != cwl:
            out.add("mr2_wl_decodes_to_phy_cwl")
        if bits(v2, 6, 6):
            out.add("mr2_wl_set_A")
    else:
        i, j, w = bits(v2, 3, 0), bits(v2, 7, 4), bits(v1, 7, 4)
        if w >= len(LP5_WL_A[ratio]) or LP5_WL_A[ratio][w] != cwl:
            out.add("mr1_wl_decodes_to_phy_cwl")
        if v1 & 0xf:
            out.add("mr1_reserved_or_ck_mode_bits_zero")
        if i >= len(LP5_RL_0[ratio]) or LP5_RL_0[ratio][i] != cl:
            out.add("mr2_rl_decodes_to_phy_cl")
        if j >= len(LP5_NWR[ratio]) or j != i:
            out.add("mr2_nwr_code_is_the_one_of_the_selected_frequency_range")
        if bits(mrw.get(18, 0), 7, 7) != {2: 1, 4: 0}[ratio]:
            out.add("mr18_ckr_matches_wck_ck_ratio")
    return out, dict(mr1=v1, mr2=v2, mr18=mrw.get(18))


def lp_job(kind):
    """LPDDR4 / LPDDR5 (per WCK:CK ratio): MR1/MR2 decode consistency with the latencies the PHY selects"""
    from vlib import pysym, harness
    import collections
    recs = []
    t0 = time.time()
    try:
        m = init_mod()
        CL, CWL, TCK = z3.Int("CL"), z3.Int("CWL"), z3.Real("TCK")
        if kind == "LPDDR4":
            sel = _nested_function(os.path.join(harness.REPO, "litedram/phy/lpddr4/basephy.py"), "LPDDR4PHY", "__init__", "get_cl_cw",
                                   {"OrderedDict": collections.OrderedDict})
            def f(tck):
                try:
                    return tuple(sel("LPDDR4", tck))
                except ValueError:
                    return None
            ratio = None
            fn = m.get_lpddr4_phy_init_sequence
            real_fn_name = "get_lpddr4_phy_init_sequence"
        else:
            ratio = int(kind[-1])
            from litedram.phy.lpddr5 import basephy as lp5
            def f(tck):
                try:
                    fr = lp5.get_frange(tck / ratio, ratio).for_set(wl_set="A", rl_set=0)
                    return (fr.rl, fr.wl)
                except ValueError:
                    return None
            fn = m.get_lpddr5_phy_init_sequence
            real_fn_name = "get_lpddr5_phy_init_sequence"
        rows = _step_rows(f, lo=1e-10, hi=1e-7)
        pairs = sorted({r[2] for r in rows})
        # the PHY selects (CL, CWL) from its clock: TCK ranges over the row(s) that select the pair
        dom = z3.Or(*[z3.And(CL == c, CWL == w, TCK >= z3.RealVal(Fraction(lo)), TCK < z3.RealVal(Fraction(hi))) if hi is not None else
                      z3.And(CL == c, CWL == w, TCK >= z3.RealVal(Fraction(lo)), TCK <= z3.RealVal(Fraction(1, 10**7)))
                      for lo, hi, (c, w) in rows])
        ps, ts = O(), O()
        ps.cl = pysym.SymEnum.of_int_var(CL, sorted({c for c, w in pairs}))
        ps.cwl = pysym.SymEnum.of_int_var(CWL, sorted({w for c, w in pairs}))
        ps.memtype = kind[:6]
        ps.nphases = 8 if kind == "LPDDR4" else 1
        if ratio:
            ps.wck_ck_ratio = ratio
        label = kind
        errs, bad = [], collections.defaultdict(list)
        npaths = 0
        for pc, res, perrs in pysym.fork_run(lambda: fn(ps, ts)):
            npaths += 1
            errs += perrs
            if res is None:
                continue
            seq, mr = res
            mrw = {}
            for e in seq:
                if e[3] == m.cmds["MODE_REGISTER"]:
                    for cb, ba in _cases(e[2]):
                        mrw.setdefault(ba, []).append((z3.And(pc, cb), e[1]))
            for ba in (1, 2):
                if ba not in mrw:
                    bad["mode_register_%d_written" % ba].append(pc)
            for e in seq:
                if e[3] == m.cmds["MODE_REGISTER"]:
                    for ca, a in _cases(e[1]):
                        if not (isinstance(a, int) and 0 <= a < 256):
                            bad["mode_register_opcode_fits_8_bits"].append(z3.And(pc, ca))
            for cb, val in mrw.get(1, []):
                for ca, v in _cases(val):
                    c = z3.And(cb, ca)
                    if kind == "LPDDR4":
                        if LP4_BL.get(bits(v, 1, 0)) != 16:
                            bad["mr1_burst_length_is_16"].append(c)
                        nwr = LP4_NWR[bits(v, 6, 4)]
                        bad["mr1_nwr_covers_tWR_18ns_at_every_clock_selecting_this_latency"].append(
                            z3.And(c, nwr * TCK < z3.RealVal(LP4_TWR * (1 - TOL))))
                    else:
                        wl = LP5_WL_A[ratio][bits(v, 7, 4)] if bits(v, 7, 4) < len(LP5_WL_A[ratio]) else None
                        bad["mr1_wl_decodes_to_phy_cwl"].append(c if wl is None else z3.And(c, CWL != wl))
                        if bits(v, 3, 3) != 0 or bits(v, 2, 0) != 0:
                            bad["mr1_reserved_or_ck_mode_bits_zero"].append(c)
            for cb, val in mrw.get(2, []):
                for ca, v in _cases(val):
                    c = z3.And(cb, ca)
                    if kind == "LPDDR4":
                        bad["mr2_rl_decodes_to_phy_cl"].append(z3.And(c, CL != LP4_RL[bits(v, 2, 0)]))
                        bad["mr2_wl_decodes_to_phy_cwl"].append(z3.And(c, CWL != LP4_WL_A[bits(v, 5, 3)]))
                        if bits(v, 6, 6) != 0:
                            bad["mr2_wl_set_A"].append(c)
                    else:
                        i, j = bits(v, 3, 0), bits(v, 7, 4)
                        rl = LP5_RL_0[ratio][i] if i < len(LP5_RL_0[ratio]) else None
                        bad["mr2_rl_decodes_to_phy_cl"].append(c if rl is None else z3.And(c, CL != rl))
                        if j >= len(LP5_NWR[ratio]) or j != i:
                            bad["mr2_nwr_code_is_the_one_of_the_selected_frequency_range"].append(c)
            if kind != "LPDDR4":
                for cb, val in mrw.get(18, []):
                    for ca, v in _cases(val):
                        if bits(v, 7, 7) != {2: 1, 4: 0}[ratio]:
                            bad["mr18_ckr_matches_wck_ck_ratio"].append(z3.And(cb, ca))
        want = ["mode_register_1_written", "mode_register_2_written", "mode_register_opcode_fits_8_bits", "mr2_rl_decodes_to_phy_cl"]
        want += (["mr1_burst_length_is_16", "mr1_nwr_covers_tWR_18ns_at_every_clock_selecting_this_latency", "mr2_wl_decodes_to_phy_cwl",
                  "mr2_wl_set_A"] if kind == "LPDDR4" else
                 ["mr1_wl_decodes_to_phy_cwl", "mr1_reserved_or_ck_mode_bits_zero", "mr2_nwr_code_is_the_one_of_the_selected_frequency_range",
                  "mr18_ckr_matches_wck_ck_ratio"])
        solve(recs, label, "no_table_miss_or_failed_assert_for_selectable_latencies", [dom, z3.Or(*[c for c, w in errs])] if errs
              else [z3.BoolVal(False)], info="%d error sites on %d paths; %d latency pairs" % (len(errs), npaths, len(pairs)))
        if errs:
            recs[-1]["errors"] = sorted({w for c, w in errs})[:6]
        for q in want:
            solve(recs, label, q, [dom, z3.Or(*bad[q])] if bad[q] else [z3.BoolVal(False)])
        solve(recs, label, "witness_domain_nonempty", [dom], expect="sat")
        # replay every counterexample on the real (uninstrumented) generator with the model's concrete latencies and clock
        for r in recs:
            if r["result"] == "sat" and r["expect"] == "unsat":
                cl, cwl = int(r["model"].get("CL", 0)), int(r["model"].get("CWL", 0))
                tck = Fraction(r["model"].get("TCK", "1/1000000000"))
                viol, detail = lp_concrete(kind, cl, cwl, tck)
                r["replay"] = dict(cl=cl, cwl=cwl, tck=float(tck), violated=sorted(viol), confirmed=r["q"] in viol, **detail)
                if r["q"] not in viol:
                    r["result"] = "unknown"
                    r["info"] = "model does not reproduce on the real generator: %r" % r["replay"]
    except Exception as e:
                    r["replay"] = dict(cl=cl, cwl=cwl, exception=repr(e))
    except Exception as e:
        import traceback
        recs.append(dict(bench=kind, q="encode", result="unknown", s=0.0, expect="unsat", info="%r %s" % (e, traceback.format_exc()[-600:])))
    return kind, recs, time.time() - t0


def _is_wr_miss(what):
    return what.startswith("KeyError") and ("[10, 12, 14, 16" in what or "[10, 12, 14, 16, 5" in what or "table [10, 12, 14, 16, 18" in what
                                            or "[10, 12, 14, 16, 5, 6, 7, 8]" in what)


def solve(recs, bench, q, cons, expect="unsat", info=None, extra=None, err_vars=None):
    s = z3.Solver()
    s.set("timeout", 60000)
    s.add(*cons)
    t0 = time.time()
    r = str(s.check())
    if r == "sat" and expect == "unsat" and err_vars:
        # counterexamples must not live in the floating-point slack: re-decide with exact arithmetic
        s2 = z3.Solver()
        s2.set("timeout", 60000)
        s2.add(*cons)
        s2.add(*[e == 0 for e in err_vars])
        r2 = str(s2.check())
        if r2 == "sat":
            s = s2
        elif r2 == "unsat":
            recs.append(dict(bench=bench, q=q, result="unsat", s=round(time.time() - t0, 3), expect=expect,
                             info=(info or "") + " [satisfiable only inside the 8-ulp double-rounding slack; exact arithmetic: unsat]"))
            return recs[-1]
        else:
            r = "unknown"
    rec = dict(bench=bench, q=q, result=r, s=round(time.time() - t0, 3), expect=expect, info=info)
    if r == "sat":
        mdl = s.model()
        rec["model"] = {str(d.name()): str(mdl[d]) for d in mdl.decls() if not str(d.name()).startswith(("fe", "ceil", "floor"))}
    if extra:
        rec.update(extra)
    recs.append(rec)
    return rec


def module_job(args):
    """DDR2/DDR3/DDR4: init sequence on the cycle counts of a real module class at a symbolic clock"""
    clsname, tier = args
    from litedram import modules
    from vlib import pysym, datasheet
    from checks.c16 import freq_range, NAT_RATES
    recs = []
    t0 = time.time()
    try:
        cls = getattr(modules, clsname)
        memtype = cls.memtype
        m = init_mod()
        rows = cl_cwl_rows(memtype)
        sgs = [None] + [k for k in cls.speedgrade_timings.keys() if k != "default"]
        if tier == "quick":
            sgs = sgs[:2]
        for sg in sgs:
            for rate in NAT_RATES[memtype]:
                nph = int(rate.split(":")[1])
                label = "%s/%s/%s" % (clsname, sg, rate)
                with pysym.symbolic_run(modules) as ctx:
                    mod = cls(pysym.SymReal([0, 1]), rate, speedgrade=sg, fine_refresh_mode=None if memtype != "DDR4" else "1x")
                f = ctx.f
                lo, hi = freq_range(memtype, sg, nph)
                lo = max(lo, Fraction(DRAM_MIN_MHZ[memtype] * 10**6, nph))
                if lo >= hi:
                    continue
                base = list(ctx.constraints) + [f >= z3.RealVal(str(lo)), f <= z3.RealVal(str(hi))]
                # CL/CWL from the real default table: tck = 1/(f*nphases) [s]; row active iff tck_lo <= tck < tck_hi
                CL, CWL = z3.Int("CL"), z3.Int("CWL")
                rowcons = []
                for tlo, thi, c, w in rows:
                    # tck >= tlo  <=>  1 >= tlo*f*nph
                    cond = [z3.RealVal(1) >= z3.RealVal(str(Fraction(repr(tlo)))) * f * nph]
                    if thi is not None:
                        cond.append(z3.RealVal(1) < z3.RealVal(str(Fraction(repr(thi)))) * f * nph)
                    rowcons.append(z3.And(*cond, CL == c, CWL == (w if w is not None else 0)))
                base.append(z3.Or(*rowcons))
                ts = mod.timing_settings
                TW = z3.Int("TWTR")
                tw = ts.tWTR.t if isinstance(ts.tWTR, pysym.SymInt) else z3.IntVal(int(ts.tWTR))
                base.append(TW == tw)
                ps, tso = O(), O()
                ps.cl = pysym.SymEnum.of_int_var(CL, sorted({r[2] for r in rows}))
                ps.cwl = pysym.SymEnum.of_int_var(CWL, sorted({r[3] for r in rows if r[3] is not None})) if memtype != "DDR2" else None
                ps.nphases = nph
                ps.memtype = memtype
                ps.is_rdimm = False
                RANGE = range(1, 33)
                tso.tWTR = pysym.SymEnum.of_int_var(TW, RANGE)
                tso.fine_refresh_mode = "1x"
                fn = getattr(m, "get_%s_phy_init_sequence" % memtype.lower())
                with pysym.enum_run() as ectx:
                    seq, _ = fn(ps, tso)
                solve(recs, label, "witness_clock_interval_nonempty", base, expect="sat")
                solve(recs, label, "twtr_inside_enumerated_range", base + [z3.Or(TW < 1, TW > 32)])
                errs = [c for c, w in ectx.errors]
                if errs:
                    solve(recs, label, "init_generator_does_not_crash_for_this_module_and_clock(KeyError/assert)", base + [z3.Or(*errs)],
                          info="; ".join(sorted({w[:70] for c, w in ectx.errors}))[:300], err_vars=ctx.err_vars)
                # write recovery
                tb = datasheet.table(cls, sg, "1x" if memtype == "DDR4" else None)
                twr_ns = tb["tWR"][1]
                mr0s = [e for e in seq if e[3] == m.cmds["MODE_REGISTER"] and e[2] == 0]
                too_short, too_long = [], []
                G = z3.RealVal(10**9)

                def N(name):
                    v = getattr(ts, name)
                    return v.t if isinstance(v, pysym.SymInt) else z3.IntVal(int(v or 0))
                from litedram.common import burst_lengths
                half_burst = burst_lengths[memtype] // 2
                wl_sys = z3.Int("WLSYS")
                base2 = base + [wl_sys * nph >= CWL, (wl_sys - 1) * nph < CWL] if memtype != "DDR2" else base + [wl_sys * nph >= CL - 1, (wl_sys - 1) * nph < CL - 1]
                ctrl_wait = (wl_sys + N("tWR") + N("tCCD")) * nph      # clocks from WR to the earliest precharge the controller issues
                cwl_clk = CWL if memtype != "DDR2" else CL - 1
                for e in mr0s[-1:]:
                    a = e[1] if isinstance(e[1], pysym.SymEnum) else pysym.SymEnum([(z3.BoolVal(True), e[1])])
                    for c, v in a.cases:
                        d = decode_mr0(memtype, v)
                        if d["wr"] is None:
                            too_short.append(c)
                            continue
                        wr = d["wr"]
                        # wr clocks * tCK >= tWR_ns  <=>  wr * 1e9 >= tWR_ns * f * nph
                        too_short.append(z3.And(c, z3.RealVal(wr) * G < z3.RealVal(str(twr_ns * (1 - TOL))) * f * nph))
                        # DRAM auto-precharge starts WL + BL/2 + WR after the write; the controller activates again after its own wait + tRP
                        too_long.append(z3.And(c, cwl_clk + half_burst + wr > ctrl_wait))
                solve(recs, label, "programmed_write_recovery_covers_datasheet_tWR", base + [z3.Or(*too_short)], info="tWR=%s ns" % twr_ns,
                      err_vars=ctx.err_vars)
                solve(recs, label, "programmed_write_recovery_not_longer_than_controller_waits", base2 + [z3.Or(*too_long)],
                      err_vars=ctx.err_vars)
    except Exception as e:
        import traceback
        recs.append(dict(bench=clsname, q="encode", result="unknown", s=0.0, expect="unsat", info="%r %s" % (e, traceback.format_exc()[-700:])))
    return clsname, recs, time.time() - t0


def replay_wr(clsname, rec):
    """re-run the REAL (uninstrumented) code with doubles at the model's clock and re-decode"""
    from litedram import modules, init
    from litedram.common import get_default_cl_cwl
    from vlib import datasheet
    cls = getattr(modules, clsname)
    _, sg, rate = rec["bench"].split("/")
    sg = None if sg == "None" else sg
    fv = rec["model"].get("f")
    f = float(Fraction(fv.replace("?", ""))) if fv else None
    nph = int(rate.split(":")[1])
    mod = cls(f, rate, speedgrade=sg)
    tck = 1 / (f * nph)
    cl, cwl = get_default_cl_cwl(cls.memtype, tck)
    ps = O()
    ps.cl, ps.cwl, ps.nphases, ps.memtype, ps.is_rdimm = cl, cwl, nph, cls.memtype, False
    out = dict(clk_freq=f, cl=cl, cwl=cwl, tWTR=mod.timing_settings.tWTR, tWR=mod.timing_settings.tWR)
    try:
        seq, _ = getattr(init, "get_%s_phy_init_sequence" % cls.memtype.lower())(ps, mod.timing_settings)
    except Exception as e:
        out["exception"] = "%s: %s" % (type(e).__name__, e)
        out["confirmed"] = "does_not_crash" in rec["q"]
        return out
    mr0 = [e for e in seq if e[2] == 0 and e[3] == init.cmds["MODE_REGISTER"]][-1][1]
    d = decode_mr0(cls.memtype, mr0)
    tb = datasheet.table(cls, sg, "1x" if cls.memtype == "DDR4" else None)
    twr_ns = tb["tWR"][1]
    tck_ns = Fraction(10**9) / (Fraction(f) * nph)
    out.update(mr0=mr0, decoded=d, tck_ns=float(tck_ns), tWR_ns=float(twr_ns))
    if "covers_datasheet_tWR" in rec["q"]:
        out["confirmed"] = d["wr"] is None or d["wr"] * tck_ns < twr_ns * (1 - TOL)
    elif "not_longer" in rec["q"]:
        import math
        from litedram.common import burst_lengths
        wl = math.ceil((cwl if cls.memtype != "DDR2" else cl - 1) / nph)
        wait = (wl + mod.timing_settings.tWR + (mod.timing_settings.tCCD or 0)) * nph
        out["controller_wait_clocks"] = wait
        out["confirmed"] = (cwl if cls.memtype != "DDR2" else cl - 1) + burst_lengths[cls.memtype] // 2 + d["wr"] > wait
    else:
        out["confirmed"] = False
    return out


def _render_configs():
    """(label, phy_settings, timing_settings, geom_settings) for every memory type the generators support"""
    from litedram.common import GeomSettings
    from litedram.phy.model import get_sdram_phy_settings
    from litedram import modules
    out = []
    for memtype, clsname, f, rate in [("SDR", "MT48LC16M16", 100e6, "1:1"), ("DDR", "MT46V32M16", 100e6, "1:2"),
                                      ("LPDDR", "MT46H32M16", 100e6, "1:2"), ("DDR2", "MT47H64M16", 133e6, "1:2"),
                                      ("DDR3", "MT41K128M16", 100e6, "1:4"), ("DDR4", "MT40A1G8", 125e6, "1:4")]:
        cls = getattr(modules, clsname)
        mod = cls(f, rate)
        ps = get_sdram_phy_settings(memtype, 16, f)
        out.append((memtype, ps, mod.timing_settings, mod.geom_settings))
        if memtype == "DDR4":
            ps2 = get_sdram_phy_settings(memtype, 16, f)
            ps2.is_clam_shell = True
            out.append(("DDR4_clamshell", ps2, mod.timing_settings, mod.geom_settings))
    for kind, cl, cwl, ratio, bankbits in [("LPDDR4", 6, 4, None, 3), ("LPDDR4", 20, 10, None, 3), ("LPDDR5", 6, 4, 2, 4), ("LPDDR5", 17, 9, 4, 4)]:
        from litedram.common import PhySettings
        ps = PhySettings(phytype="TEST" + kind, memtype=kind, databits=16, dfi_databits=32, nphases=(8 if kind == "LPDDR4" else 1),
                         rdphase=0, wrphase=0, cl=cl, cwl=cwl, read_latency=10, write_latency=2)
        if ratio:
            ps.wck_ck_ratio = ratio
        ts = O()
        ts.fine_refresh_mode = "1x"
        out.append(("%s_rl%d%s" % (kind, cl, "_ratio%d" % ratio if ratio else ""), ps, ts, GeomSettings(bankbits=bankbits, rowbits=15, colbits=10)))
    return out


def _parse_c_sequence(ch):
    """init_sequence() body of the C header -> ordered [(address, baddress, command text, delay)]"""
    import re
    body = ch[ch.index("static inline void init_sequence(void)"):]
    out = []
    cur = {}
    for line in body.splitlines():
        line = line.strip()
        m = re.match(r"sdram_dfii_pi0_address_write\((0x[0-9a-fA-F]+|\d+)\);", line)
        if m:
            if "a" in cur and "cmd" in cur:
                out.append((cur["a"], cur.get("ba"), cur["cmd"], cur.get("delay", 0)))
                cur = {}
            cur["a"] = int(m.group(1), 0)
            continue
        m = re.match(r"sdram_dfii_pi0_baddress_write\((0x[0-9a-fA-F]+|\d+)\);", line)
        if m:
            cur["ba"] = int(m.group(1), 0)
            continue
        m = re.match(r"(?:command_p0|sdram_dfii_control_write)\((.*)\);", line)
        if m:
            cur["cmd"] = m.group(1).replace(" ", "")
            continue
        m = re.match(r"cdelay\((\d+)\);", line)
        if m:
            cur["delay"] = int(m.group(1))
    if "a" in cur and "cmd" in cur:
        out.append((cur["a"], cur.get("ba"), cur["cmd"], cur.get("delay", 0)))
    return out


def _parse_py_sequence(py):
    import re
    out = []
    for m in re.finditer(r'^\s*\("(?:[^"]*)",\s*(\d+),\s*(\d+),\s*([^,]+),\s*(\d+)\),\s*$', py, re.M):
        out.append((int(m.group(1)), int(m.group(2)), m.group(3).strip().upper().replace(" ", ""), int(m.group(4))))
    return out


def render_check(ctx):
    """the C and the Python rendering describe the same sequence as the generator's tuples: both headers are produced by the real
    emitters for every memory type (incl. LPDDR4/LPDDR5 and a clam-shell DDR4 system) and parsed back into ordered
    (address, bank address, command, delay) lists.  Concrete parse-back per configuration, reported as such."""
    from litedram import init
    n = 0
    for label, ps, ts, gs in _render_configs():
        t0 = time.time()
        try:
            seq, _ = init.get_sdram_phy_init_sequence(ps, ts)
            want = [(int(a), int(ba), str(cmd).replace(" ", ""), int(delay)) for _c, a, ba, cmd, delay in seq]
            py = _parse_py_sequence(init.get_sdram_phy_py_header(ps, ts))
            c = _parse_c_sequence(init.get_sdram_phy_c_header(ps, ts, gs))
            if getattr(ps, "is_clam_shell", False):
                # every mode-register write is emitted twice (top / bottom half with swapped address bits): compare the top copies
                top = [e for e in c if not e[2].endswith("|DFII_COMMAND_CS_BOTTOM")]
                c = [(a, ba, cmd.replace("|DFII_COMMAND_CS_TOP", ""), d) for a, ba, cmd, d in top]
            problems = []
            if py != [(a, ba, cmd.upper(), d) for a, ba, cmd, d in want]:
                problems.append("python header differs: %r" % ([x for x in zip(want, py) if (x[0][0], x[0][1], x[0][3]) != (x[1][0], x[1][1], x[1][3])][:2] or (len(want), len(py)),))
            if c != want:
                problems.append("C header differs: %r" % ([x for x in zip(want, c) if x[0] != x[1]][:2] or (len(want), len(c)),))
            q = "render/%s:c_and_python_headers_describe_the_generated_sequence" % label
            ctx.oblige(q, "sat" if problems else "unsat", time.time() - t0,
                       detail="%d steps; concrete parse-back of both renderings (not a solver verdict) %s" % (len(want), "; ".join(problems)))
            if problems:
                path = ctx.write_replay("render_" + label, "c_and_python_headers_describe_the_generated_sequence",
                                        dict(cls=None, render=label, rec=dict(bench="render_" + label, q="render", problems=problems)))
                ctx.violation("render_" + label, "c_and_python_headers_describe_the_generated_sequence", path)
            n += 1
        except Exception as e:
            import traceback
            ctx.inconclusive.append("render check for %s failed to run: %r %s" % (label, e, traceback.format_exc()[-400:]))
    return n


BENCHES = {}


def replay_custom(data):
    if data.get("render"):
        class _C:
            inconclusive, viol = [], []
            def oblige(self, *a, **k): pass
            def write_replay(self, *a, **k): return data.get("path", "<file>")
            def violation(self, label, goal, path): self.viol.append(label)
        c = _C()
        render_check(c)
        if ("render_" + data["render"]) in c.viol:
            print("VIOLATION property=C17 replay=%s" % data.get("path", "<file>"))
            return 1
        print("renderings agree for", data["render"], c.inconclusive)
        return 0
    if data.get("cls") is None and str(data["rec"].get("bench", "")).startswith("LPDDR"):
        mdl = data["rec"]["model"]
        viol, detail = lp_concrete(data["rec"]["bench"], int(mdl["CL"]), int(mdl["CWL"]), Fraction(mdl.get("TCK", "1/1000000000")))
        print("re-run of the real generator:", detail, "violated:", sorted(viol))
        if data["rec"]["q"] in viol:
            print("VIOLATION property=C17 replay=%s" % data.get("path", "<file>"))
            return 1
        return 0
    rp = replay_plain(data["rec"]) if data.get("cls") is None and data["rec"].get("plain") else replay_wr(data["cls"], data["rec"])
    print("re-run of the real generators with doubles:", rp)
    if rp.get("confirmed"):
        print("VIOLATION property=C17 replay=%s" % data.get("path", "<file>"))
        return 1
    return 0


def replay_plain(rec):
    """re-run the REAL generator concretely at the model's (CL, CWL, tWTR, tWTR2) and re-decode both MR0 values"""
    from litedram import init
    pl, mdl = rec["plain"], rec["model"]
    out = dict(pl)
    wrs = []
    for key in ("TWTR", "TWTR2"):
        ps, ts = O(), O()
        ps.cl, ps.cwl, ps.nphases, ps.memtype, ps.is_rdimm = int(mdl["CL"]), int(mdl["CWL"]), pl["nphases"], pl["memtype"], False
        ts.tWTR, ts.fine_refresh_mode = int(mdl[key]), "1x"
        seq, _ = getattr(init, "get_%s_phy_init_sequence" % pl["memtype"].lower())(ps, ts)
        mr0 = [e for e in seq if e[2] == 0 and e[3] == init.cmds["MODE_REGISTER"]][-1][1]
        wrs.append(decode_mr0(pl["memtype"], mr0)["wr"])
        out[key] = dict(tWTR=ts.tWTR, mr0=mr0, decoded_wr=wrs[-1])
    out["confirmed"] = None not in wrs and int(mdl["TWTR"]) < int(mdl["TWTR2"]) and wrs[0] > wrs[1]
    return out


def run(ctx):
    from checks.c16 import module_classes
    from litedram import modules
    ctx.assume("CL/CWL: the pairs common.get_default_cl_cwl returns (what the PHYs select unless the user overrides); default "
               "electrical settings; no RDIMM; RPC generator not covered.  LPDDR4: the (RL, WL) pairs LPDDR4PHY.get_cl_cw returns, tCK over "
               "the range selecting each pair, tWR = 18 ns; LPDDR5: the (RL, WL) pairs get_frange() returns for WCK:CK 2 and 4 (set A / "
               "set 0), decode consistency only (its nWR-vs-tWR relation is JEDEC's own table and is not re-derived)")
    ctx.assume("module-linked obligations: controller clock symbolic over the same per-class interval as C16, natural rates; "
               "quick tier: first speedgrade(s) per class")
    names = [n for n in module_classes() if getattr(modules, n).memtype in ("DDR2", "DDR3", "DDR4")]
    if ctx.only:
        names = [n for n in names if ctx.only.search(n)]
    ctxm = multiprocessing.get_context("fork")
    allrecs = []
    with cf.ProcessPoolExecutor(max_workers=ctx.jobs_n, mp_context=ctxm) as ex:
        for name, recs, secs in ex.map(plain_job, ["SDR", "DDR", "LPDDR", "DDR2", "DDR3", "DDR4"], chunksize=1):
            allrecs.append((None, recs))
        for name, recs, secs in ex.map(lp_job, ["LPDDR4", "LPDDR5_2", "LPDDR5_4"], chunksize=1):
            allrecs.append((None, recs))
        for name, recs, secs in ex.map(module_job, [(n, ctx.tier) for n in names], chunksize=1):
            allrecs.append((name, recs))
    k = 0
    for clsname, recs in allrecs:
        for r in recs:
            k += 1
            label = "%s:%s" % (r["bench"], r["q"])
            ctx.oblige(label, r["result"], r["s"], expect=r["expect"], detail=r.get("info"),
                       sample=dict(obligation=label, result=r["result"], info=r.get("info")) if k % 97 == 1 else None)
            if r["expect"] == "sat":
                if r["result"] != "sat":
                    ctx.inconclusive.append("%s: witness unsatisfiable" % label)
                continue
            if r["result"] == "sat":
                goal = r["q"].split("(")[0]
                if clsname is not None or r.get("plain"):
                    try:
                        rp = replay_wr(clsname, r) if clsname is not None else replay_plain(r)
                    except Exception as e:
                        rp = dict(confirmed=False, error=repr(e))
                    r["replay"] = rp
                    if not rp.get("confirmed"):
                        ctx.inconclusive.append("%s: model does not reproduce on the real generators: %r" % (label, rp))
                        continue
                kf = ctx.known_finding(r["bench"], goal)
                path = None
                if kf:
                    if not any(kh[0]["id"] == kf["id"] for kh in ctx.known_hits):
                        path = ctx.write_replay(r["bench"], goal, dict(cls=clsname, rec=r))
                        ctx.known_hits.append((kf, r["bench"], goal, path))
                    ctx.extra["known_finding_instances"] = ctx.extra.get("known_finding_instances", 0) + 1
                    ctx.discharged += 1
                else:
                    path = ctx.write_replay(r["bench"], goal, dict(cls=clsname, rec=r))
                    ctx.violations.append((r["bench"], goal, -1, path))
    render_check(ctx)
    ctx.states = max(1, ctx.states)
