"""pysym -- symbolic execution of the real Python arithmetic of litedram.modules / litedram.init.

The real functions are executed (not re-modelled) with proxy values:
  SymReal : a rational function P(f)/Q(f) of ONE symbolic real (the controller clock frequency f) with exact
            rational coefficients -- enough for everything modules.py computes before it rounds;
  SymInt  : a z3 integer expression (results of ceil/max/... on symbolic values).
The names the code under test resolves at call time (`ceil`, `max`, `min`, `int`, `round` in the module's globals)
are shadowed by symbolic-aware versions while a symbolic run is active and restored afterwards.

Floating point: the code computes in IEEE doubles.  Each value that reaches ceil() is the exact real value
perturbed by a fresh error term |e| <= REL_EPS*|x| (REL_EPS = 8 ulp), so a verdict holds for the doubles too.
"""
import math
from fractions import Fraction
import contextlib

import z3

REL_EPS = Fraction(8, 2**53)


class Ctx:
    def __init__(self, fname="f"):
        self.f = z3.Real(fname)
        self.constraints = []
        self.err_vars = []
        self.n = 0
        self.ceil_log = []

    def fresh_int(self, base="n"):
        self.n += 1
        return z3.Int("%s%d" % (base, self.n))

    def fresh_real(self, base="e"):
        self.n += 1
        v = z3.Real("%s%d" % (base, self.n))
        if base == "fe":
            self.err_vars.append(v)
        return v


_CTX = None


def frac(x):
    if isinstance(x, Fraction):
        return x
    if isinstance(x, int):
        return Fraction(x)
    if isinstance(x, float):
        return Fraction(repr(x))
    raise TypeError(x)


def _padd(a, b):
    n = max(len(a), len(b))
    return [(a[i] if i < len(a) else 0) + (b[i] if i < len(b) else 0) for i in range(n)]


def _pmul(a, b):
    r = [Fraction(0)] * (len(a) + len(b) - 1)
    for i, x in enumerate(a):
        for j, y in enumerate(b):
            r[i + j] += x * y
    return r


def _ptrim(a):
    a = list(a)
    while len(a) > 1 and a[-1] == 0:
        a.pop()
    return a


class SymReal:
    """P(f)/Q(f), coefficient lists low degree first"""
    def __init__(self, p, q=None):
        self.p = _ptrim([frac(x) for x in p])
        self.q = _ptrim([frac(x) for x in (q or [1])])
        if all(x == 0 for x in self.p):
            self.p, self.q = [Fraction(0)], [Fraction(1)]
        # cancel common powers of f
        while len(self.p) > 1 and len(self.q) > 1 and self.p[0] == 0 and self.q[0] == 0:
            self.p, self.q = self.p[1:], self.q[1:]

    @staticmethod
    def lift(x):
        if isinstance(x, SymReal):
            return x
        if isinstance(x, SymInt):
            raise TypeError("SymInt used in real arithmetic")
        return SymReal([frac(x)])

    def __add__(self, o):
        o = SymReal.lift(o)
        return SymReal(_padd(_pmul(self.p, o.q), _pmul(o.p, self.q)), _pmul(self.q, o.q))
    __radd__ = __add__

    def __neg__(self):
        return SymReal([-x for x in self.p], self.q)

    def __sub__(self, o):
        return self + (-SymReal.lift(o))

    def __rsub__(self, o):
        return SymReal.lift(o) + (-self)

    def __mul__(self, o):
        o = SymReal.lift(o)
        return SymReal(_pmul(self.p, o.p), _pmul(self.q, o.q))
    __rmul__ = __mul__

    def __truediv__(self, o):
        o = SymReal.lift(o)
        return SymReal(_pmul(self.p, o.q), _pmul(self.q, o.p))

    def __rtruediv__(self, o):
        return SymReal.lift(o) / self

    def is_const(self):
        return len(self.p) == 1 and len(self.q) == 1

    def const(self):
        return self.p[0] / self.q[0]

    def z3(self, f):
        """z3 real term; only constant denominators (polynomial numerator of degree <= 1) are accepted: linear"""
        if len(self.q) != 1:
            raise ValueError("non-linear symbolic value (denominator depends on f): %r / %r" % (self.p, self.q))
        if len(self.p) > 2:
            raise ValueError("non-linear symbolic value (degree %d)" % (len(self.p) - 1))
        c = self.q[0]
        t = z3.RealVal(str(self.p[0] / c))
        if len(self.p) > 1:
            t = t + z3.RealVal(str(self.p[1] / c)) * f
        return t

    def __ceil__(self):
        return sym_ceil(self)

    def __floor__(self):
        return sym_floor(self)

    def __float__(self):
        raise TypeError("symbolic value concretised (float())")

    def __repr__(self):
        return "SymReal(%s / %s)" % (self.p, self.q)


class SymInt:
    def __init__(self, t):
        self.t = t

    @staticmethod
    def term(x):
        if isinstance(x, SymInt):
            return x.t
        if isinstance(x, bool):
            return z3.IntVal(int(x))
        if isinstance(x, int):
            return z3.IntVal(x)
        raise TypeError("cannot mix %r with SymInt" % (x,))

    def __add__(self, o):
        return SymInt(self.t + SymInt.term(o))
    __radd__ = __add__

    def __sub__(self, o):
        return SymInt(self.t - SymInt.term(o))

    def __rsub__(self, o):
        return SymInt(SymInt.term(o) - self.t)

    def __mul__(self, o):
        if isinstance(o, SymInt):
            raise TypeError("symbolic * symbolic")
        return SymInt(self.t * SymInt.term(o))
    __rmul__ = __mul__

    def __index__(self):
        raise TypeError("symbolic integer concretised (__index__)")

    def __int__(self):
        raise TypeError("symbolic integer concretised (int())")

    def __bool__(self):
        raise TypeError("symbolic integer used as a Python bool")

    def __lt__(self, o):
        raise TypeError("comparison of a symbolic integer in Python control flow")
    __gt__ = __le__ = __ge__ = __lt__

    def __repr__(self):
        return "SymInt(%s)" % self.t


def sym_ceil(x):
    if isinstance(x, SymInt):
        return x
    if not isinstance(x, SymReal):
        return math.ceil(x)
    if x.is_const():
        # the real code would have computed this in doubles; constants are exact rationals here and only arise from table
        # entries divided by constants
        c = x.const()
        return -((-c.numerator) // c.denominator)
    ctx = _CTX
    xt = x.z3(ctx.f)
    e = ctx.fresh_real("fe")
    n = ctx.fresh_int("ceil")
    eps = z3.RealVal(str(REL_EPS))
    # doubles: value actually fed to ceil is xt + e with |e| <= eps*|xt| ; xt >= 0 in all uses (asserted)
    ctx.constraints += [xt >= 0, e <= eps * xt, e >= -eps * xt,
                        z3.ToReal(n) >= xt + e, z3.ToReal(n) - 1 < xt + e]
    ctx.ceil_log.append((n, x))
    return SymInt(n)


def sym_floor(x):
    if isinstance(x, SymInt):
        return x
    if not isinstance(x, SymReal):
        return math.floor(x)
    if x.is_const():
        c = x.const()
        return c.numerator // c.denominator
    ctx = _CTX
    xt = x.z3(ctx.f)
    e = ctx.fresh_real("fe")
    n = ctx.fresh_int("floor")
    eps = z3.RealVal(str(REL_EPS))
    ctx.constraints += [xt >= 0, e <= eps * xt, e >= -eps * xt,
                        z3.ToReal(n) <= xt + e, z3.ToReal(n) + 1 > xt + e]
    ctx.ceil_log.append((n, x))
    return SymInt(n)


def sym_max(*args, **kw):
    if len(args) == 1 and not kw:
        args = tuple(args[0])
    if not any(isinstance(a, SymInt) for a in args):
        if any(isinstance(a, SymReal) for a in args):
            raise TypeError("max() over symbolic reals not supported")
        return max(*args, **kw)
    r = SymInt.term(args[0])
    for a in args[1:]:
        t = SymInt.term(a)
        r = z3.If(t > r, t, r)
    return SymInt(r)


@contextlib.contextmanager
def symbolic_run(module, fname="f", names=("ceil", "max", "floor")):
    """shadow ceil/max in `module`'s globals; yields the Ctx"""
    global _CTX
    saved = {}
    missing = object()
    ctx = Ctx(fname)
    prev = _CTX
    _CTX = ctx
    repl = {"ceil": sym_ceil, "max": sym_max, "floor": sym_floor}
    try:
        for n in names:
            saved[n] = module.__dict__.get(n, missing)
            module.__dict__[n] = repl[n]
        yield ctx
    finally:
        for n, v in saved.items():
            if v is missing:
                del module.__dict__[n]
            else:
                module.__dict__[n] = v
        _CTX = prev


# --------------------------------------------------------------------------------------------------
# Finite-case symbolic values (init.py): a value is a list of (z3 condition, concrete python value)
# --------------------------------------------------------------------------------------------------
import ast
import operator
import types


class EnumCtx:
    def __init__(self):
        self.errors = []      # (cond, description)
        self.fork = False     # True: symbolic conditions in Python control flow fork the run (fork_run)
        self.decisions = []   # [taken, has_alternative] per symbolic branch point, in execution order
        self.pos = 0
        self.pc = []          # path condition (z3 Bools)

    def error(self, cond, what):
        self.errors.append((z3.And(*self.pc, cond) if self.pc else cond, what))

    def _sat(self, extra):
        s = z3.Solver()
        s.add(*self.pc)
        s.add(extra)
        return str(s.check()) != "unsat"

    def branch(self, tcond, fcond):
        i = self.pos
        self.pos += 1
        if i < len(self.decisions):
            d = self.decisions[i][0]
        else:
            ts, fs = self._sat(tcond), self._sat(fcond)
            if not ts and not fs:
                raise _Infeasible()
            d = ts
            self.decisions.append([d, ts and fs])
        self.pc.append(tcond if d else fcond)
        return d


class _Infeasible(Exception):
    pass


def fork_run(fn):
    """run fn() once per feasible path through its symbolic branch points; yields (path_condition, result_or_None, errors)"""
    global _ECTX
    decisions = []
    while True:
        prev = _ECTX
        ctx = _ECTX = EnumCtx()
        ctx.fork = True
        ctx.decisions = [list(d) for d in decisions]
        res = None
        try:
            res = fn()
        except _Infeasible:
            pass
        except Exception as e:
            ctx.error(z3.BoolVal(True), "%s: %s" % (type(e).__name__, e))
        finally:
            _ECTX = prev
        yield (z3.And(*ctx.pc) if ctx.pc else z3.BoolVal(True)), res, ctx.errors
        decisions = ctx.decisions
        while decisions and not (decisions[-1][0] and decisions[-1][1]):
            decisions.pop()
        if not decisions:
            return
        decisions[-1] = [False, False]


_ECTX = None


class SymEnum:
    def __init__(self, cases):
        merged = {}
        order = []
        for c, v in cases:
            k = (type(v).__name__, v)
            if k in merged:
                merged[k] = z3.Or(merged[k], c)
            else:
                merged[k] = c
                order.append((k, v))
        self.cases = [(z3.simplify(merged[k]), v) for k, v in order]
        self.cases = [(c, v) for c, v in self.cases if not z3.is_false(c)]

    @staticmethod
    def of_int_var(var, values):
        return SymEnum([(var == v, v) for v in values])

    def map(self, fn):
        out = []
        for c, v in self.cases:
            try:
                out.append((c, fn(v)))
            except Exception as e:
                _ECTX.error(c, "%s: %s" % (type(e).__name__, e))
        return SymEnum(out)

    def _bin(self, other, fn):
        if isinstance(other, SymEnum):
            out = []
            for c1, v1 in self.cases:
                for c2, v2 in other.cases:
                    c = z3.simplify(z3.And(c1, c2))
                    if z3.is_false(c):
                        continue
                    try:
                        out.append((c, fn(v1, v2)))
                    except Exception as e:
                        _ECTX.error(c, "%s: %s" % (type(e).__name__, e))
            return SymEnum(out)
        return self.map(lambda v: fn(v, other))

    def __format__(self, spec):
        return "?"

    def __str__(self):
        return "?"

    def __repr__(self):
        return "SymEnum(%d cases)" % len(self.cases)

    def __bool__(self):
        vals = {bool(v) for c, v in self.cases}
        if len(vals) == 1:
            return vals.pop()
        if _ECTX is not None and _ECTX.fork:
            return _ECTX.branch(z3.Or(*[c for c, v in self.cases if v]), z3.Or(*[c for c, v in self.cases if not v]))
        raise TypeError("symbolic condition in Python control flow")

    def __hash__(self):
        return id(self)


def _mk(op, name, swap=False):
    def f(self, other):
        if swap:
            return self._bin(other, lambda a, b: op(b, a))
        return self._bin(other, op)
    f.__name__ = name
    return f


for _n, _op in [("add", operator.add), ("sub", operator.sub), ("mul", operator.mul), ("and", operator.and_), ("or", operator.or_),
                ("xor", operator.xor), ("lshift", operator.lshift), ("rshift", operator.rshift), ("floordiv", operator.floordiv),
                ("mod", operator.mod)]:
    setattr(SymEnum, "__%s__" % _n, _mk(_op, "__%s__" % _n))
    setattr(SymEnum, "__r%s__" % _n, _mk(_op, "__r%s__" % _n, swap=True))
for _n, _op in [("lt", operator.lt), ("le", operator.le), ("gt", operator.gt), ("ge", operator.ge), ("eq", operator.eq), ("ne", operator.ne)]:
    setattr(SymEnum, "__%s__" % _n, _mk(_op, "__%s__" % _n))


class SymDict(dict):
    def __getitem__(self, k):
        if isinstance(k, SymEnum):
            out = []
            for c, v in k.cases:
                if dict.__contains__(self, v):
                    out.append((c, dict.__getitem__(self, v)))
                else:
                    _ECTX.error(c, "KeyError: %r not in table %s" % (v, sorted(self.keys(), key=repr)[:12]))
            return SymEnum(out)
        return dict.__getitem__(self, k)


def sym_assert(cond, msg=None):
    if isinstance(cond, SymEnum):
        for c, v in cond.cases:
            if not v:
                _ECTX.error(c, "AssertionError: %s" % (msg if not isinstance(msg, SymEnum) else "?"))
        return
    assert cond, msg


def enum_max(*args):
    if len(args) == 1:
        args = tuple(args[0])
    if not any(isinstance(a, SymEnum) for a in args):
        return max(*args)
    r = args[0]
    for a in args[1:]:
        if isinstance(r, SymEnum):
            r = r._bin(a, max)
        else:
            r = a.map(lambda v, r=r: max(r, v))
    return r


class _InitTransformer(ast.NodeTransformer):
    def visit_Dict(self, node):
        self.generic_visit(node)
        return ast.copy_location(ast.Call(func=ast.Name(id="__SymDict", ctx=ast.Load()), args=[node], keywords=[]), node)

    def visit_Assert(self, node):
        self.generic_visit(node)
        args = [node.test] + ([node.msg] if node.msg is not None else [])
        return ast.copy_location(ast.Expr(ast.Call(func=ast.Name(id="__sym_assert", ctx=ast.Load()), args=args, keywords=[])), node)


def load_instrumented(path, modname):
    """re-compile a module from its CURRENT source with dict literals -> SymDict and assert -> sym_assert"""
    src = open(path).read()
    tree = _InitTransformer().visit(ast.parse(src, filename=path))
    ast.fix_missing_locations(tree)
    mod = types.ModuleType(modname)
    mod.__file__ = path
    mod.__dict__["__SymDict"] = SymDict
    mod.__dict__["__sym_assert"] = sym_assert
    exec(compile(tree, path, "exec"), mod.__dict__)
    mod.__dict__["max"] = enum_max
    return mod


@contextlib.contextmanager
def enum_run():
    global _ECTX
    prev = _ECTX
    _ECTX = EnumCtx()
    try:
        yield _ECTX
    finally:
        _ECTX = prev
