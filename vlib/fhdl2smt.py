"""fhdl2smt -- symbolic execution of elaborated Migen FHDL into z3 (QF_BV).

The input is a real Migen ``Module`` (built by the real constructors of the
code under test).  It is lowered exactly like ``migen.sim.Simulator`` lowers it
(MemoryToArray, lower_specials with the AsyncResetSynchronizer override,
missing clock domains created reset-less, insert_resets, comb targets default
to their reset value) and every statement is then executed symbolically with
the semantics of ``migen.sim.core.Evaluator`` ("python exact": operators work
on unbounded integers, truncation only happens on assignment, Cat/If/Case
truncate to Migen's own width of the sub-expression).

Result: for every combinationally driven signal a z3 term over *template
variables* (one per register / primary input / symbolic constant), and for
every register a next-state term per clock domain.  ``Unroller`` instantiates
these templates frame by frame.
"""
import collections
import z3

from migen.fhdl.structure import (Signal, Constant, Cat, Replicate, If, Case, Mux,
                                  ClockSignal, ResetSignal, ClockDomain,
                                  _Operator, _Slice, _Part, _ArrayProxy,
                                  _Assign, _Fragment, _Value, Display)
from migen.fhdl.bitcontainer import value_bits_sign
from migen.fhdl.tools import (list_targets, list_signals, insert_resets,
                              lower_specials, group_by_targets)
from migen.fhdl.simplify import MemoryToArray
from migen.genlib.resetsync import AsyncResetSynchronizer
from migen.sim.core import DummyAsyncResetSynchronizer, Evaluator


class EncodeError(Exception):
    pass


class _NeedBitSplit(Exception):
    def __init__(self, sig):
        self.sig = sig


# --------------------------------------------------------------------------------------------------
# Exact-width values
# --------------------------------------------------------------------------------------------------

class Val:
    """A z3 bit-vector together with its interpretation (signed or unsigned).

    Invariant: the mathematical integer denoted by (term, signed) is exactly the
    Python integer the Migen simulator would compute."""
    __slots__ = ("t", "s")

    def __init__(self, t, s):
        self.t = t
        self.s = s

    @property
    def w(self):
        return self.t.size()


def _const(v):
    if v >= 0:
        w = max(1, v.bit_length())
        return Val(z3.BitVecVal(v, w), False)
    w = (-v - 1).bit_length() + 1
    return Val(z3.BitVecVal(v, w), True)


def _ext(v, w):
    """extend (never truncate) v to width w keeping its value"""
    d = w - v.w
    if d == 0:
        return v.t
    assert d > 0, (v.w, w)
    return z3.SignExt(d, v.t) if v.s else z3.ZeroExt(d, v.t)


def _signed(v):
    if v.s:
        return v
    return Val(z3.ZeroExt(1, v.t), True)


def _common(a, b, extra=0):
    """bring a and b to a common width/signedness able to hold both (+extra)"""
    if a.s or b.s:
        a, b = _signed(a), _signed(b)
        s = True
    else:
        s = False
    w = max(a.w, b.w) + extra
    return _ext(a, w), _ext(b, w), s


def _trunc(v, nbits, signed):
    """Python: _truncate(value, nbits, signed) -> Val of width nbits"""
    if v.w >= nbits:
        t = z3.Extract(nbits - 1, 0, v.t) if v.w > nbits else v.t
    else:
        t = _ext(v, nbits)
    return Val(t, signed)


def _as_unsigned_bits(v, nbits):
    """value & (2**nbits-1) as unsigned Val of width nbits"""
    return _trunc(v, nbits, False)


def _nonzero(v):
    return v.t != z3.BitVecVal(0, v.w)


def _bool2val(b):
    return Val(z3.If(b, z3.BitVecVal(1, 1), z3.BitVecVal(0, 1)), False)


def _ite(c, a, b):
    ta, tb, s = _common(a, b)
    return Val(z3.If(c, ta, tb), s)


MAX_SHIFT_GROWTH = 512


# --------------------------------------------------------------------------------------------------
# Design: lowered fragment + template terms
# --------------------------------------------------------------------------------------------------

def _prune(statements, target, cache):
    """keep only the statements that can assign `target` (identity preserved
    for leaves)"""
    out = []
    for s in statements:
        if isinstance(s, _Assign):
            if target in _lv_signals(s.l):
                out.append(s)
        elif isinstance(s, If):
            t = _prune(s.t, target, cache)
            f = _prune(s.f, target, cache)
            if t or f:
                out.append(("if", s.cond, t, f))
        elif isinstance(s, Case):
            cases = []
            any_ = False
            for k, v in s.cases.items():
                pv = _prune(v, target, cache)
                cases.append((k, pv))
                if pv:
                    any_ = True
            if any_:
                out.append(("case", s.test, cases))
        elif isinstance(s, Display):
            pass
        elif isinstance(s, collections.abc.Iterable):
            out.extend(_prune(list(s), target, cache))
        elif isinstance(s, tuple):
            out.append(s)
        else:
            raise EncodeError("unknown statement %r" % (s,))
    return out


def _lv_signals(node):
    """signals an l-value can write"""
    if isinstance(node, Signal):
        return {node}
    if isinstance(node, Cat):
        r = set()
        for e in node.l:
            r |= _lv_signals(e)
        return r
    if isinstance(node, (_Slice, _Part)):
        return _lv_signals(node.value)
    if isinstance(node, _ArrayProxy):
        r = set()
        for c in node.choices:
            r |= _lv_signals(c)
        return r
    raise EncodeError("unsupported l-value %r" % (node,))


def _all_assign_targets(statements, acc):
    for s in statements:
        if isinstance(s, _Assign):
            acc |= _lv_signals(s.l)
        elif isinstance(s, If):
            _all_assign_targets(s.t, acc)
            _all_assign_targets(s.f, acc)
        elif isinstance(s, Case):
            for v in s.cases.values():
                _all_assign_targets(v, acc)
        elif isinstance(s, Display):
            pass
        elif isinstance(s, collections.abc.Iterable):
            _all_assign_targets(list(s), acc)
    return acc


def _group(statements):
    """like migen group_by_targets but aware of ArrayProxy/Slice l-values"""
    groups = []  # list of (set, [stmts])
    for s in statements:
        t = _all_assign_targets([s], set())
        if not t:
            continue
        merged_t, merged_s = set(t), [s]
        rest = []
        for gt, gs in groups:
            if gt & merged_t:
                merged_t |= gt
                merged_s = gs + merged_s
            else:
                rest.append((gt, gs))
        rest.append((merged_t, merged_s))
        groups = rest
    return groups


class MemoryToWatched:
    """Sound abstraction of selected memories (same port semantics as migen's MemoryToArray, line by line): only ONE word,
    at a symbolic watch address, is stored; a read of any other address returns a fresh free input (arbitrary contents).  Every
    behaviour of the real memory is a behaviour of the abstraction, so `unsat` carries over; a counterexample is replayed on the
    un-abstracted design before it is reported."""
    def __init__(self, select):
        self.select = select
        self.free_inputs = []
        self.words = {}

    def transform_fragment(self, f):
        from migen.fhdl.specials import Memory, WRITE_FIRST, NO_CHANGE
        keep = set()
        processed = set()
        for mem in sorted(f.specials, key=lambda m: getattr(m, "duid", 0)):
            wa = self.select(mem) if isinstance(mem, Memory) else None
            if wa is None:
                keep.add(mem)
                continue
            if mem.init is not None and any(mem.init):
                raise EncodeError("memory abstraction needs a zero/absent init image")
            k = len(self.words)
            wd = Signal(mem.width, name_override="memabs%d_word" % k)
            self.words[mem] = wd

            def rd(adr, k=k, mem=mem, wd=wd, wa=wa):
                fr = Signal(mem.width, name_override="memabs%d_free%d" % (k, len(self.free_inputs)))
                self.free_inputs.append(fr)
                return Mux(adr == wa, wd, fr)
            for port in mem.ports:
                sync = f.sync.setdefault(port.clock.cd, [])
                if port.async_read:
                    f.comb.append(port.dat_r.eq(rd(port.adr)))
                else:
                    if port.mode == WRITE_FIRST:
                        adr_reg = Signal.like(port.adr)
                        rd_stmt = adr_reg.eq(port.adr)
                        f.comb.append(port.dat_r.eq(rd(adr_reg)))
                    elif port.mode == NO_CHANGE and port.we is not None:
                        rd_stmt = If(~port.we, port.dat_r.eq(rd(port.adr)))
                    else:
                        rd_stmt = port.dat_r.eq(rd(port.adr))
                    sync.append(rd_stmt if port.re is None else If(port.re, rd_stmt))
                if port.we is not None:
                    hit = port.adr == wa
                    if port.we_granularity:
                        n = mem.width // port.we_granularity
                        for i in range(n):
                            m, M = i * port.we_granularity, (i + 1) * port.we_granularity
                            sync.append(If(port.we[i] & hit, wd[m:M].eq(port.dat_w[m:M])))
                    else:
                        sync.append(If(port.we & hit, wd.eq(port.dat_w)))
                processed.add(port)
        f.specials = keep - processed


class Design:
    def __init__(self, top, inputs=(), consts=(), extra_clock_domains=("sys",), name="dut", stable_names=None):
        self.name = name
        self._names = dict(stable_names or {})
        if isinstance(top, _Fragment):
            fragment = top
        else:
            fragment = top.get_fragment()
        self.fragment = fragment
        mta = MemoryToArray()
        mta.transform_fragment(None, fragment)
        self.replaced_memories = mta.replacements
        overrides = {AsyncResetSynchronizer: DummyAsyncResetSynchronizer}
        f, lowered = lower_specials(overrides, fragment)
        if fragment.specials:
            raise EncodeError("could not lower specials: %r" % (fragment.specials,))
        used_cds = set(fragment.sync.keys()) | set(extra_clock_domains)
        for cdname in sorted(used_cds):
            if cdname not in fragment.clock_domains:
                cd = ClockDomain(name=cdname, reset_less=True)
                fragment.clock_domains.append(cd)
        insert_resets(fragment)
        self.comb_targets = _all_assign_targets(fragment.comb, set())
        # comb signals return to their reset value if nothing assigns them
        self.sync_targets = {}
        reg_domain = {}
        for cd, stmts in fragment.sync.items():
            ts = _all_assign_targets(stmts, set())
            self.sync_targets[cd] = ts
            for s in ts:
                if s in reg_domain:
                    raise EncodeError("register %r driven from two clock domains" % s)
                if s in self.comb_targets:
                    raise EncodeError("signal %r driven by comb and sync" % s)
                reg_domain[s] = cd
        self.reg_domain = reg_domain
        self.inputs = list(inputs)
        self.consts = list(consts)
        for s in self.inputs + self.consts:
            if s in self.comb_targets or s in reg_domain:
                raise EncodeError("declared input/const %r is driven by the design" % s)
        self.input_set = set(self.inputs)
        self.const_set = set(self.consts)
        # statement groups
        self._comb_group_of = {}
        for gt, gs in _group(fragment.comb):
            g = (gt, gs)
            for s in gt:
                self._comb_group_of[s] = g
        self._sync_group_of = {}
        for cd, stmts in fragment.sync.items():
            for gt, gs in _group(stmts):
                g = (gt, gs)
                for s in gt:
                    self._sync_group_of[s] = g
        self.regs = sorted(reg_domain.keys(), key=lambda s: s.duid)
        self._tvars = {}      # Signal -> template z3 var (regs, inputs, consts)
        self._comb_val = {}   # Signal -> Val (template term)
        self._in_progress = set()
        self._bitsplit = set()
        self._bit_cache = {}
        self._bitctx = None
        self._next = {}
        self._pruned = {}
        for s in self.regs + self.inputs + self.consts:
            self._tvars[s] = z3.BitVec("T!" + self.sig_name(s), len(s))

    # ---- naming --------------------------------------------------------------------------------
    def sig_name(self, s):
        n = self._names.get(s)
        if n is None:
            bt = getattr(s, "backtrace", None)
            base = s.name_override
            if base is None:
                try:
                    base = "_".join(str(x[0] if isinstance(x, tuple) else x) for x in bt[-3:]) if bt else "sig"
                except Exception:
                    base = "sig"
            n = "%s#%d" % (base, s.duid)
            self._names[s] = n
        return n

    def is_state(self, s):
        return s in self.reg_domain

    def state_bits(self):
        return sum(len(s) for s in self.regs)

    # ---- reading values ------------------------------------------------------------------------
    def sig_val(self, s):
        """Val of signal s in the current frame, as template term"""
        tv = self._tvars.get(s)
        if tv is not None:
            return Val(tv, s.signed)
        if s in self.comb_targets:
            v = self._comb_val.get(s)
            if v is None:
                if s in self._bitsplit:
                    bits = [self._bit_val(s, b) for b in range(len(s))]
                    t = z3.Concat(*reversed(bits)) if len(bits) > 1 else bits[0]
                    v = Val(z3.simplify(t), s.signed)
                    self._comb_val[s] = v
                else:
                    v = self._compute_comb(s)
            return v
        # undriven: holds its reset value, as in migen.sim
        return _trunc(_const(s.reset.value), len(s), s.signed)

    def _bit_val(self, s, b):
        """bit b of a comb signal whose bits depend on each other (bit-level acyclic): 1-bit z3 term"""
        key = (s, b)
        v = self._bit_cache.get(key)
        if v is not None:
            return v
        if key in self._in_progress:
            raise EncodeError("combinational loop through bit %d of %s" % (b, self.sig_name(s)))
        self._in_progress.add(key)
        saved = self._bitctx
        try:
            self._bitctx = key
            gt, gs = self._comb_group_of[s]
            stmts = _prune(gs, s, None)
            rv = (s.reset.value >> b) & 1
            env = {s: Val(z3.BitVecVal(rv, 1), False)}
            self._exec(stmts, env, s, z3.BoolVal(True))
            v = z3.simplify(env[s].t)
            self._bit_cache[key] = v
            return v
        finally:
            self._bitctx = saved
            self._in_progress.discard(key)

    def _compute_comb(self, s):
        if s in self._in_progress:
            if len(s) > 1 and s not in self._bitsplit:
                raise _NeedBitSplit(s)
            raise EncodeError("combinational loop through %s" % self.sig_name(s))
        self._in_progress.add(s)
        try:
            gt, gs = self._comb_group_of[s]
            key = (id(gs), s)
            stmts = _prune(gs, s, None)
            env = {s: _trunc(_const(s.reset.value), len(s), s.signed)}
            saved = self._bitctx
            self._bitctx = None
            try:
                self._exec(stmts, env, s, z3.BoolVal(True))
            except _NeedBitSplit as e:
                if e.sig is not s:
                    raise
                # bits of s depend on other bits of s: evaluate it bit by bit
                self._bitsplit.add(s)
                self._in_progress.discard(s)
                return self.sig_val(s)
            finally:
                self._bitctx = saved
            v = env[s]
            v = Val(z3.simplify(v.t), v.s)
            self._comb_val[s] = v
            return v
        finally:
            self._in_progress.discard(s)

    def next_val(self, s):
        """next-state Val (template term) of register s when its domain ticks"""
        v = self._next.get(s)
        if v is None:
            gt, gs = self._sync_group_of[s]
            stmts = _prune(gs, s, None)
            env = {s: self.sig_val(s)}
            self._exec(stmts, env, s, z3.BoolVal(True))
            v = env[s]
            v = Val(z3.simplify(v.t), v.s)
            self._next[s] = v
        return v

    # ---- cone of influence ---------------------------------------------------------------------
    def term_support(self, term):
        """set of Signals (registers / inputs / consts) a template term depends on"""
        if not hasattr(self, "_tv_back"):
            self._tv_back = {v.get_id(): s for s, v in self._tvars.items()}
            self._supp_cache = {}
        out = set()
        seen = set()
        st = [term]
        while st:
            x = st.pop()
            i = x.get_id()
            if i in seen:
                continue
            seen.add(i)
            s = self._tv_back.get(i)
            if s is not None:
                out.add(s)
                continue
            st.extend(x.children())
        return out

    def cone(self, roots, root_exprs=()):
        """registers and inputs/consts in the sequential cone of influence of root signals"""
        need = set()
        work = []
        for s in roots:
            work.extend(self.term_support(self.sig_val(s).t))
        for e in root_exprs:
            work.extend(self.term_support(self.eval(e).t))
        while work:
            s = work.pop()
            if s in need:
                continue
            need.add(s)
            if s in self.reg_domain:
                work.extend(self.term_support(self.next_val(s).t))
        return need

    # ---- expression evaluation -----------------------------------------------------------------
    def eval(self, node, env=None, postcommit=False):
        if isinstance(node, Constant):
            return _const(node.value)
        if isinstance(node, Signal):
            if postcommit and env is not None and node in env:
                return env[node]
            return self.sig_val(node)
        if isinstance(node, _Operator):
            return self._eval_op(node, env, postcommit)
        if isinstance(node, _Slice):
            if node.stop <= node.start:
                return Val(z3.BitVecVal(0, 1), False)
            if (isinstance(node.value, Signal) and node.value in self._bitsplit and not
                    (postcommit and env is not None and node.value in env)):
                bits = [self._bit_val(node.value, b) for b in range(node.start, node.stop)]
                return Val(z3.Concat(*reversed(bits)) if len(bits) > 1 else bits[0], False)
            v = self.eval(node.value, env, postcommit)
            if v.w < node.stop:
                v = Val(_ext(v, node.stop), v.s)
            return Val(z3.Extract(node.stop - 1, node.start, v.t), False)
        if isinstance(node, _Part):
            v = self.eval(node.value, env, postcommit)
            off = self.eval(node.offset, env, postcommit)
            if off.s:
                raise EncodeError("signed part offset")
            maxoff = 2**off.w - 1
            W = max(v.w, maxoff + node.width)
            if W > 1 << 16:
                raise EncodeError("part too wide")
            vt = _ext(v, W)
            sh = z3.LShR(vt, _ext(off, W)) if W >= off.w else None
            if sh is None:
                raise EncodeError("part offset wider than value")
            return Val(z3.Extract(node.width - 1, 0, sh), False)
        if isinstance(node, Cat):
            parts = []
            for e in node.l:
                nbits = len(e)
                if nbits == 0:
                    continue
                parts.append(_as_unsigned_bits(self.eval(e, env, postcommit), nbits).t)
            if not parts:
                return Val(z3.BitVecVal(0, 1), False)
            if len(parts) == 1:
                return Val(parts[0], False)
            return Val(z3.Concat(*reversed(parts)), False)
        if isinstance(node, Replicate):
            nbits = len(node.v)
            v = _as_unsigned_bits(self.eval(node.v, env, postcommit), nbits).t
            if node.n == 0 or nbits == 0:
                return Val(z3.BitVecVal(0, 1), False)
            if node.n == 1:
                return Val(v, False)
            return Val(z3.Concat(*([v] * node.n)), False)
        if isinstance(node, _ArrayProxy):
            key = self.eval(node.key, env, postcommit)
            n = len(node.choices)
            choices = [self.eval(c, env, postcommit) for c in node.choices]
            if key.s:
                raise EncodeError("signed array key")
            # idx = min(n-1, key)
            r = choices[n - 1]
            for i in range(n - 2, -1, -1):
                if i >= 2**key.w:
                    continue
                r = _ite(key.t == z3.BitVecVal(i, key.w), choices[i], r)
            return r
        if isinstance(node, ResetSignal):
            cd = self.fragment.clock_domains[node.cd]
            if cd.rst is None:
                if node.allow_reset_less:
                    return _const(0)
                raise EncodeError("reset of resetless domain")
            return self.eval(cd.rst, env, postcommit)
        if isinstance(node, ClockSignal):
            raise EncodeError("ClockSignal used as a value")
        if isinstance(node, (int, bool)):
            return _const(int(node))
        raise EncodeError("unsupported node %r" % (node,))

    def _eval_op(self, node, env, postcommit):
        op = node.op
        ops = [self.eval(o, env, postcommit) for o in node.operands]
        if op == "~":
            a = _signed(ops[0])
            return Val(~a.t, True)
        if op == "-" and len(ops) == 1:
            a = _signed(ops[0])
            return Val(-_ext(a, a.w + 1), True)
        if op == "+" and len(ops) == 1:
            return ops[0]
        if op == "+":
            ta, tb, s = _common(ops[0], ops[1], 1)
            return Val(ta + tb, s)
        if op == "-":
            a, b = _signed(ops[0]), _signed(ops[1])
            w = max(a.w, b.w) + 1
            return Val(_ext(a, w) - _ext(b, w), True)
        if op == "*":
            a, b = ops
            if a.s or b.s:
                a, b = _signed(a), _signed(b)
                w = a.w + b.w
                return Val(_ext(a, w) * _ext(b, w), True)
            w = a.w + b.w
            return Val(_ext(a, w) * _ext(b, w), False)
        if op in ("&", "|", "^"):
            ta, tb, s = _common(ops[0], ops[1])
            if op == "&":
                return Val(ta & tb, s)
            if op == "|":
                return Val(ta | tb, s)
            return Val(ta ^ tb, s)
        if op in ("<", "<=", "==", "!=", ">", ">="):
            ta, tb, s = _common(ops[0], ops[1])
            if op == "==":
                b = ta == tb
            elif op == "!=":
                b = ta != tb
            elif s:
                b = {"<": ta < tb, "<=": ta <= tb, ">": ta > tb, ">=": ta >= tb}[op]
            else:
                b = {"<": z3.ULT(ta, tb), "<=": z3.ULE(ta, tb),
                     ">": z3.UGT(ta, tb), ">=": z3.UGE(ta, tb)}[op]
            return _bool2val(b)
        if op == "m":
            c = _nonzero(ops[0])
            return _ite(c, ops[1], ops[2])
        if op == ">>>":
            a, b = ops
            if b.s:
                raise EncodeError("signed shift amount")
            w = max(a.w, b.w)
            ta, tb = _ext(a, w), _ext(b, w)
            r = (ta >> tb) if a.s else z3.LShR(ta, tb)
            return Val(z3.Extract(a.w - 1, 0, r), a.s)
        if op == "<<<":
            a, b = ops
            if b.s:
                raise EncodeError("signed shift amount")
            if z3.is_bv_value(b.t):
                grow = b.t.as_long()
            else:
                grow = 2**b.w - 1
            if grow > MAX_SHIFT_GROWTH:
                raise EncodeError("shift amount too wide (%d bits)" % b.w)
            w = max(a.w + grow, b.w)
            r = _ext(a, w) << _ext(b, w)
            return Val(r, a.s)
        raise EncodeError("unsupported operator %r" % op)

    # ---- statement execution -------------------------------------------------------------------
    def _assign(self, node, value, env, target, cond):
        """env[target] <- ite(cond, assigned, old) restricted to `target`"""
        if self._bitctx is not None and self._bitctx[0] is target:
            b = self._bitctx[1]
            if isinstance(node, Signal):
                if node is not target:
                    return
                tv = _trunc(value, len(node), node.signed)
                new = z3.Extract(b, b, tv.t)
            elif isinstance(node, _Slice) and node.value is target:
                if not (node.start <= b < node.stop):
                    return
                tv = _as_unsigned_bits(value, node.stop - node.start)
                new = z3.Extract(b - node.start, b - node.start, tv.t)
            elif target not in _lv_signals(node):
                return
            else:
                raise EncodeError("unsupported l-value form for bit-level evaluation of %s" % self.sig_name(target))
            old = env[target]
            env[target] = Val(new if z3.is_true(cond) else z3.If(cond, new, old.t), False)
            return
        if isinstance(node, Signal):
            if node is not target:
                return
            new = _trunc(value, len(node), node.signed)
            old = env[node]
            if z3.is_true(cond):
                env[node] = new
            else:
                env[node] = Val(z3.If(cond, new.t, old.t), node.signed)
        elif isinstance(node, Cat):
            shift = 0
            for e in node.l:
                nbits = len(e)
                if target in _lv_signals(e):
                    # value & mask, value >>= nbits  (value may be negative: arithmetic shift)
                    need = shift + nbits
                    vv = value
                    if vv.w < need:
                        vv = Val(_ext(vv, need), vv.s)
                    part = Val(z3.Extract(need - 1, shift, vv.t), False)
                    self._assign(e, part, env, target, cond)
                shift += nbits
        elif isinstance(node, _Slice):
            if target not in _lv_signals(node.value):
                return
            full = self.eval(node.value, env, True)
            n = node.stop - node.start
            if n <= 0:
                return
            W = max(full.w, node.stop)
            ft = _ext(full, W)
            vt = _as_unsigned_bits(value, n).t
            pieces = []
            if W > node.stop:
                pieces.append(z3.Extract(W - 1, node.stop, ft))
            pieces.append(vt)
            if node.start > 0:
                pieces.append(z3.Extract(node.start - 1, 0, ft))
            nt = z3.Concat(*pieces) if len(pieces) > 1 else pieces[0]
            self._assign(node.value, Val(nt, full.s), env, target, cond)
        elif isinstance(node, _Part):
            if target not in _lv_signals(node.value):
                return
            full = self.eval(node.value, env, True)
            off = self.eval(node.offset, env, True)
            if off.s:
                raise EncodeError("signed part offset")
            W = max(full.w, 2**off.w - 1 + node.width, off.w)
            ft = _ext(full, W)
            ot = _ext(off, W)
            mask = z3.BitVecVal(2**node.width - 1, W) << ot
            vt = _ext(_as_unsigned_bits(value, node.width), W) << ot
            nt = (ft & ~mask) | vt
            self._assign(node.value, Val(nt, full.s), env, target, cond)
        elif isinstance(node, _ArrayProxy):
            key = self.eval(node.key, env, False)
            if key.s:
                raise EncodeError("signed array key")
            n = len(node.choices)
            for i, c in enumerate(node.choices):
                if target not in _lv_signals(c):
                    continue
                if i == n - 1:
                    if 2**key.w - 1 < i:
                        continue
                    ci = z3.UGE(key.t, z3.BitVecVal(i, key.w)) if key.w >= i.bit_length() else z3.BoolVal(False)
                else:
                    if i >= 2**key.w:
                        continue
                    ci = key.t == z3.BitVecVal(i, key.w)
                self._assign(c, value, env, target, z3.And(cond, ci))
        else:
            raise EncodeError("unsupported l-value %r" % (node,))

    def _exec(self, stmts, env, target, cond):
        for s in stmts:
            if isinstance(s, _Assign):
                if (self._bitctx is not None and self._bitctx[0] is target and isinstance(s.l, _Slice)
                        and s.l.value is target and not (s.l.start <= self._bitctx[1] < s.l.stop)):
                    continue
                self._assign(s.l, self.eval(s.r, env, False), env, target, cond)
            elif isinstance(s, tuple) and s[0] == "if":
                _, c, t, f = s
                cv = self.eval(c, env, False)
                cb = _nonzero(_as_unsigned_bits(cv, len(c)))
                cb = z3.simplify(cb)
                if z3.is_true(cb):
                    self._exec(t, env, target, cond)
                elif z3.is_false(cb):
                    self._exec(f, env, target, cond)
                else:
                    if t:
                        self._exec(t, env, target, z3.And(cond, cb))
                    if f:
                        self._exec(f, env, target, z3.And(cond, z3.Not(cb)))
            elif isinstance(s, tuple) and s[0] == "case":
                _, test, cases = s
                nbits, signed = value_bits_sign(test)
                tv = _trunc(self.eval(test, env, False), nbits, signed)
                none_before = z3.BoolVal(True)
                default = None
                for k, body in cases:
                    if isinstance(k, Constant):
                        kv = k.value
                        # representable?
                        lo, hi = (-(2**(nbits - 1)), 2**(nbits - 1) - 1) if signed else (0, 2**nbits - 1)
                        if kv < lo or kv > hi:
                            continue
                        m = tv.t == z3.BitVecVal(kv, nbits)
                        if body:
                            self._exec(body, env, target, z3.And(cond, none_before, m))
                        none_before = z3.And(none_before, z3.Not(m))
                    elif k == "default":
                        default = body
                    else:
                        # non-constant keys are never matched by the simulator
                        pass
                if default:
                    self._exec(default, env, target, z3.And(cond, none_before))
            else:
                raise EncodeError("unexpected pruned statement %r" % (s,))


# --------------------------------------------------------------------------------------------------
# Unrolling
# --------------------------------------------------------------------------------------------------

class Unroller:
    """Instantiates a Design over frames 0..K.

    Frame t holds: state S_t (value of registers *during* cycle t), inputs I_t.
    S_{t+1} = next(S_t, I_t) for registers whose domain ticks at the end of frame
    t (schedule), else S_t.

    schedule: None (every domain ticks every frame), or a list (cyclic) of sets
    of domain names, or "free" (one Boolean per domain per frame, `tick(cd,t)`).
    """

    def __init__(self, design, free_init=(), schedule=None, tag="", cone=None):
        self.d = design
        self.tag = tag
        self.cone = cone
        self.regs = [s for s in design.regs if cone is None or s in cone]
        self.inputs = [s for s in design.inputs if cone is None or s in cone]
        self.schedule = schedule
        self.free_init = set(free_init)
        self.frames = []       # list of dict template-var -> frame term (z3 substitution list)
        self.fvars = []        # list of dict Signal -> frame var
        self.constraints = []
        self.const_vars = {s: z3.BitVec("C!%s%s" % (tag, design.sig_name(s)), len(s)) for s in design.consts}
        self.tick_vars = []
        self._cache = {}
        self._mk_frame()
        for s in self.regs:
            if s not in self.free_init:
                rv = s.reset.value & (2**len(s) - 1)
                self.constraints.append(self.fvars[0][s] == z3.BitVecVal(rv, len(s)))

    @property
    def K(self):
        return len(self.frames) - 1

    def _mk_frame(self):
        t = len(self.frames)
        d = self.d
        fv = {}
        for s in self.regs:
            fv[s] = z3.BitVec("S%d!%s%s" % (t, self.tag, d.sig_name(s)), len(s))
        for s in self.inputs:
            fv[s] = z3.BitVec("I%d!%s%s" % (t, self.tag, d.sig_name(s)), len(s))
        for s in d.consts:
            fv[s] = self.const_vars[s]
        sub = [(d._tvars[s], fv[s]) for s in fv]
        self.frames.append(sub)
        self.fvars.append(fv)
        if self.schedule == "free":
            self.tick_vars.append({cd: z3.Bool("tick%d!%s%s" % (t, self.tag, cd)) for cd in d.sync_targets})

    def ticks(self, cd, t):
        """z3 Bool / python bool: does domain cd tick at the end of frame t"""
        if self.schedule is None:
            return True
        if self.schedule == "free":
            return self.tick_vars[t][cd]
        return cd in self.schedule[t % len(self.schedule)]

    def extend(self, K):
        d = self.d
        while self.K < K:
            t = self.K
            self._mk_frame()
            cur, nxt = self.fvars[t], self.fvars[t + 1]
            for s in self.regs:
                tk = self.ticks(d.reg_domain[s], t)
                if tk is False:
                    self.constraints.append(nxt[s] == cur[s])
                    continue
                nv = d.next_val(s)
                nt = z3.substitute(nv.t, *self.frames[t])
                if tk is True:
                    self.constraints.append(nxt[s] == nt)
                else:
                    self.constraints.append(nxt[s] == z3.If(tk, nt, cur[s]))
        return self

    def sig(self, s, t):
        """z3 term (width len(s)) of signal s at frame t"""
        key = (s, t)
        r = self._cache.get(key)
        if r is None:
            fv = self.fvars[t].get(s)
            if fv is not None:
                r = fv
            else:
                v = self.d.sig_val(s)
                r = z3.substitute(v.t, *self.frames[t])
            self._cache[key] = r
        return r

    def bit(self, s, t):
        """Bool: 1-bit signal s is 1 at frame t"""
        x = self.sig(s, t)
        return x != z3.BitVecVal(0, x.size())

    def expr(self, node, t):
        """evaluate an arbitrary migen expression at frame t -> z3 term"""
        v = self.d.eval(node)
        return z3.substitute(v.t, *self.frames[t])


# --------------------------------------------------------------------------------------------------
# Reference simulator (real migen Evaluator on the same lowered fragment) -- used for
# translator validation and for replaying solver models.
# --------------------------------------------------------------------------------------------------

class RefSim:
    def __init__(self, design, init=None, consts=None):
        self.d = design
        f = design.fragment
        self.ev = Evaluator(f.clock_domains, design.replaced_memories)
        self.comb = [s.eq(s.reset) for s in sorted(design.comb_targets, key=lambda s: s.duid)] + list(f.comb)
        for s, v in (init or {}).items():
            self.ev.signal_values[s] = v
        for s, v in (consts or {}).items():
            self.ev.signal_values[s] = v
        self.first = True

    def _settle(self):
        ev = self.ev
        modified = ev.commit()
        first = True
        n = 0
        while modified or first:
            first = False
            ev.execute(self.comb)
            modified = ev.commit()
            n += 1
            if n > 10000:
                raise EncodeError("comb does not settle in reference simulator")

    def set_inputs(self, values):
        for s, v in values.items():
            self.ev.modifications[s] = v
        self._settle()

    def get(self, s):
        return self.ev.eval(s)

    def tick(self, domains=None):
        f = self.d.fragment
        for cd, stmts in f.sync.items():
            if domains is None or cd in domains:
                self.ev.execute(stmts)
        # commit happens on next set_inputs/_settle


def to_unsigned(v, n):
    return v & (2**n - 1)
