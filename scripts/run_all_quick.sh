#!/bin/bash
# final pass: every quick check, one after the other, against /repo; logs in scratch/final_Cnn.log, summary in scratch/final_summary.log
cd /verif
: > scratch/final_summary.log
for i in 15 16 17 18 19 20 06 12 10 04 05 02 03 07 14 11 08 13 09 01; do
  t0=$(date +%s)
  timeout 3600 ./check C$i --tier quick > scratch/final_C$i.log 2>&1
  rc=$?
  echo "C$i exit=$rc wall=$(( $(date +%s) - t0 ))s $(grep -c '^KNOWN-FINDING' scratch/final_C$i.log) known $(grep -c '^VIOLATION' scratch/final_C$i.log) viol $(grep -c '^INCONCLUSIVE' scratch/final_C$i.log) inconcl" >> scratch/final_summary.log
done
echo DONE >> scratch/final_summary.log
