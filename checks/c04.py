"""C04 -- refresh is never starved and keeps the refresh rate."""
from functools import partial
import math
from migen import *
from vlib import bmc, corebench, monitors, cfg

FILES = ["litedram/core/refresher.py", "litedram/core/multiplexer.py", "litedram/core/bankmachine.py", "litedram/modules.py"]
LEVEL = "model_checking"
TECHNIQUE = ("bounded model checking (z3 QF_BV): (a) real Refresher unit over several full refresh periods against an "
             "independent period/owed-refresh accounting monitor with an adversarial grant delay; (b) whole real controller: "
             "bound on request-to-grant latency under arbitrary port traffic; replay on migen.sim")
EXPLANATION = ("Compositional: (b) proves, for every traffic schedule, that the multiplexer grants a refresh request within "
               "L cycles and that the refresher's commands reach the DFI as PREA->REF; (a) proves on the real Refresher, for every "
               "grant delay <= L at every request, that the k-th REF is issued no later than (k+postponing)*tREFI + C cycles "
               "after reset, each REF preceded by PREA by >= tRP and followed by >= tRFC of silence, ZQCS recurring.")


def service_latency_bound(ts, ps, nbanks, ctrl):
    """L: cycles from refresher.cmd.valid to the multiplexer's grant, from the configuration only.  Every bank machine
    may have to finish one precharge/activate/CAS chain before it looks at refresh_req."""
    wl = math.ceil(ps.cwl / ps.nphases)
    twtp = wl + ts.tWR + (ts.tCCD or 0)
    per_bank = twtp + (ts.tRAS or 0) + ts.tRP + (ts.tRC or 0) + ts.tRCD + (ts.tRRD or 0) + (ts.tFAW or 0) + 6
    return per_bank + 2 * nbanks + ps.read_latency + (ts.tWTR or 0) + 8


# ---- (a) Refresher unit ------------------------------------------------------------------------

def refresher_bench(name, trefi=100, trp=2, trfc=3, postponing=1, tzqcs=None, zq_period=None, L=12):
    from litedram.core.refresher import Refresher
    from litedram.core.controller import ControllerSettings
    from litedram.common import GeomSettings
    cs = ControllerSettings(refresh_postponing=postponing)
    cs.phy = cfg.phy_settings()
    cs.geom = GeomSettings(bankbits=1, rowbits=11, colbits=4)
    cs.timing = cfg.timing_settings(tRP=trp, tRFC=trfc, tREFI=trefi, tZQCS=tzqcs)
    clk_freq = 1e6
    zqcs_freq = clk_freq / zq_period if zq_period else 1e0

    class Top(Module):
        pass
    top = Top()
    top.submodules.dut = dut = Refresher(cs, clk_freq, zqcs_freq=zqcs_freq, postponing=postponing)
    cmd = dut.cmd
    go = Signal(name_override="grant_go")
    in_ref = Signal()
    waitc = Signal(max=L + 2)
    # multiplexer model: grant after an arbitrary delay <= L, hold ready until cmd.last
    top.comb += cmd.ready.eq(in_ref)
    top.sync += [
        If(cmd.last, in_ref.eq(0)).Elif(cmd.valid & ~in_ref & go, in_ref.eq(1)),
        If(cmd.valid & ~in_ref, waitc.eq(Mux(waitc == L + 1, waitc, waitc + 1))).Else(waitc.eq(0)),
    ]
    grant_in_time = Signal()
    top.comb += grant_in_time.eq(waitc <= L)
    # decode refresher commands
    xfer = cmd.valid & cmd.ready
    is_prea = Signal()
    is_ref = Signal()
    is_zq = Signal()
    top.comb += [is_prea.eq(xfer & cmd.ras & ~cmd.cas & cmd.we), is_ref.eq(xfer & cmd.ras & cmd.cas & ~cmd.we),
                 is_zq.eq(xfer & ~cmd.ras & ~cmd.cas & cmd.we)]
    # independent accounting
    per_ref = trp + trfc + 2
    C = L + postponing * per_ref + 6 + (trp + tzqcs + 2 if tzqcs else 0)
    CW = 12
    t = Signal(CW)
    started = Signal()
    periods = Signal(CW)
    phase = Signal(max=trefi + 1)
    refs = Signal(CW)
    top.sync += [
        t.eq(t + 1),
        If(~started, If(t == C - 1, started.eq(1), phase.eq(0))
        ).Else(If(phase == trefi - 1, phase.eq(0), periods.eq(periods + 1)).Else(phase.eq(phase + 1))),
        If(is_ref, refs.eq(refs + 1)),
    ]
    bads = {}

    def bad(n, e):
        s = Signal(name_override="bad_" + n)
        top.comb += s.eq(e)
        bads[n] = s
    # k-th REF no later than (k+postponing)*tREFI + C  <=>  at all times refs >= periods - postponing
    bad("refresh_owed_exceeds_postponing", periods > refs + postponing)
    # PREA -> REF >= tRP, REF -> next command or release >= tRFC, every REF preceded by a PREA since the last REF/ZQ
    a_prea = Signal(max=64, reset=63)
    a_ref = Signal(max=64, reset=63)
    prea_seen = Signal()
    top.sync += [
        a_prea.eq(Mux(is_prea, 1, Mux(a_prea == 63, 63, a_prea + 1))),
        a_ref.eq(Mux(is_ref, 1, Mux(a_ref == 63, 63, a_ref + 1))),
        If(is_prea, prea_seen.eq(1)).Elif(cmd.last, prea_seen.eq(0)),
    ]
    bad("ref_without_preceding_prea_or_before_tRP", is_ref & (~prea_seen | (a_prea < trp)))
    bad("command_or_release_before_tRFC", (is_prea | is_ref | is_zq | cmd.last) & (a_ref < trfc))
    if tzqcs:
        a_zq = Signal(max=64, reset=63)
        top.sync += a_zq.eq(Mux(is_zq, 1, Mux(a_zq == 63, 63, a_zq + 1)))
        bad("release_before_tZQCS", (is_prea | is_ref | is_zq | cmd.last) & (a_zq < tzqcs))
        bad("zqcs_before_tRP_after_prea", is_zq & (a_prea < trp))
        zqs = Signal(CW)
        zper = Signal(CW)
        # the ZQCS timer restarts when the calibration has been executed, and a calibration is only issued after a refresh:
        # at least one ZQCS in every window of zq_period + postponing*tREFI + C cycles
        zwin = zq_period + postponing * trefi + C
        zphase = Signal(max=zwin + 1)
        zstart = Signal()
        CZ = C + postponing * trefi + 4
        top.sync += [
            If(is_zq, zqs.eq(zqs + 1)),
            If(~zstart, If(t == CZ - 1, zstart.eq(1))
            ).Else(If(zphase == zwin - 1, zphase.eq(0), zper.eq(zper + 1)).Else(zphase.eq(zphase + 1))),
        ]
        bad("zqcs_not_recurring", zper > zqs + 1)
    covers = {}
    c1 = Signal()
    top.comb += c1.eq(is_ref & (refs == (2 * postponing - 1 + (1 if postponing == 1 else 0) if postponing <= 2 else postponing - 1)))
    covers["several_refresh_rounds"] = c1
    if tzqcs:
        c2 = Signal()
        top.comb += c2.eq(is_zq & (zqs == 1))
        covers["second_zqcs"] = c2
    b = bmc.Bench(name, top, {"grant_go": go}, assumes={"grant_within_L": grant_in_time}, bads=bads, covers=covers,
                  info=dict(trefi=trefi, trp=trp, trfc=trfc, postponing=postponing, tzqcs=tzqcs, zq_period=zq_period, L=L, C=C))
    b.watch = {"valid": cmd.valid, "ready": cmd.ready, "last": cmd.last, "ras": cmd.ras, "cas": cmd.cas, "we": cmd.we,
               "refs": refs, "periods": periods}
    return b


# ---- (b) whole controller: request-to-grant latency -------------------------------------------

def _extra(core, top, mon, kw):
    ps, ts = core.phy_settings, core.timing_settings
    refr = core.controller.refresher
    L = service_latency_bound(ts, ps, 2**core.geom_settings.bankbits * ps.nranks, core.ctrl_settings)
    waitc = Signal(max=L + 3)
    cmd = refr.cmd
    top.sync += If(cmd.valid & ~cmd.ready, waitc.eq(Mux(waitc == L + 2, waitc, waitc + 1))).Else(waitc.eq(0))
    b = Signal(name_override="bad_refresh_request_not_granted_within_L")
    top.comb += b.eq(waitc > L)
    kw["bads"] = {"refresh_request_not_granted_within_L": b,
                  "ref_or_zqcs_with_open_bank": mon.bads["ref_or_zqcs_with_open_bank"]}
    # refresher commands reach the DFI: REF on the bus only from the refresher, preceded by PREA (monitor tRP_ref uses req)
    c = Signal()
    top.comb += c.eq(mon.now["ref"] & mon.seen["wr"] & mon.seen["rd"])
    kw["covers"]["refresh_on_dfi_under_traffic"] = c
    c2 = Signal()
    top.comb += c2.eq(waitc >= 6)
    kw["covers"]["grant_delayed_by_traffic(>=6 cycles)"] = c2
    top.L = L


T_SMALL = dict(tRP=2, tRCD=2, tWR=2, tWTR=2, tREFI=100, tRFC=3, tFAW=None, tCCD=1, tRRD=None, tRC=None, tRAS=None)
T_FULL = dict(tRP=2, tRCD=2, tWR=2, tWTR=2, tREFI=100, tRFC=4, tFAW=6, tCCD=2, tRRD=2, tRC=6, tRAS=4)

UNIT = {
    "refresher_p1": (dict(postponing=1, L=14), 560, 800, "qt"),
    "refresher_p2": (dict(postponing=2, L=14), 760, 1000, "qt"),
    "refresher_p1_zqcs": (dict(postponing=1, L=14, tzqcs=3, zq_period=150), 560, 800, "qt"),
    "refresher_p1_long": (dict(postponing=1, L=14), 1150, 1600, "qt"),
    "refresher_p4": (dict(postponing=4, L=20, trefi=100), 0, 1000, "t"),
    "refresher_p8_trefi130": (dict(postponing=8, L=20, trefi=130, trp=3, trfc=6), 0, 1400, "t"),
}
CORE = {
    "core_sdr_2b_2p": (dict(phy="sdr_fast", bankbits=1, nports=2, timing=T_SMALL, ctrl=dict(cmd_buffer_depth=4)), 40, 56, "qt"),
    "core_ddr3_2b_2p_full": (dict(phy="ddr3_fast", bankbits=1, nports=2, timing=T_FULL, ctrl=dict(cmd_buffer_depth=4)), 0, 56, "t"),
    "core_sdr_4b_2p": (dict(phy="sdr_fast", bankbits=2, nports=2, timing=T_FULL, ctrl=dict(cmd_buffer_depth=4)), 0, 44, "t"),
}
BENCHES = {n: partial(refresher_bench, n, **c[0]) for n, c in UNIT.items()}
BENCHES.update({n: partial(corebench.core_bench, n, c[0], None, False, _extra) for n, c in CORE.items()})


def run(ctx):
    ctx.assume("unit level: the multiplexer grants each refresh request within L cycles (L from the configuration formula "
               "service_latency_bound; proven for the whole controller in the core_* benches within their depth)")
    ctx.assume("tREFI stand-in values 100..130 cycles (structure of the timer only depends on the value through its reset "
               "constant); the relation cycles<->datasheet ns is C16's subject")
    ctx.assume("time bounded by the BMC depth: 3-10 full refresh rounds from reset")
    for table in (UNIT, CORE):
        for n, (c, kq, kt, tiers) in table.items():
            if ctx.only and not ctx.only.search(n):
                continue
            if ctx.tier == "quick" and "q" in tiers:
                ctx.add(n, kq, timeout=1800, diff_cycles=8, cover_required=not n.endswith("_long"),
                        bads=["refresh_owed_exceeds_postponing"] if n.endswith("_long") else None)
            elif ctx.tier == "thorough":
                ctx.add(n, kt, timeout=3000, diff_cycles=8)
    ctx.run()
