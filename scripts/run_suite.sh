#!/bin/bash
# run the pinned suite on a tree and compare with BASELINE stable_pass. usage: run_suite.sh <tree> <tag>
tree=${1:-/repo}; tag=${2:-repo}
cd $tree && timeout 3000 /venv/bin/python -m pytest -q -p no:cacheprovider --timeout=900 --continue-on-collection-errors --junitxml=/tmp/junit_$tag.xml test/ > /tmp/suite_$tag.log 2>&1
python3 - <<PY
import json, xml.etree.ElementTree as ET
passed=set()
for tc in ET.parse("/tmp/junit_$tag.xml").getroot().iter("testcase"):
    if not list(tc): passed.add("%s::%s" % (tc.get("classname"), tc.get("name")))
base=json.load(open("/root/.vp/BASELINE.json"))["stable_pass"]
missing=[t for t in base if t not in passed]
print("SUITE $tag: stable_pass=%d passed_now=%d missing=%s" % (len(base), len(passed), missing))
PY
