"""C19 -- bundled DRAM simulation model agrees with an independent DRAM model."""
from functools import partial
import re
from migen import *
from vlib import bmc, monitors, cfg
from checks.c12 import _bad_adder

FILES = ["litedram/phy/model.py"]
LEVEL = "model_checking"
TECHNIQUE = ("bounded model checking (z3 QF_BV) of the elaborated real SDRAMPHYModel (bank memories expanded, latency pipelines) driven "
             "by a symbolic legal DFI trace, against an independent reference DRAM that tracks one symbolic watched byte; "
             "replay on migen.sim")
EXPLANATION = ("Every DFI phase input is a free solver variable per cycle, constrained only by the reference model's own legality "
               "predicate (ACT to a closed bank, CAS to an open bank, write recovery before precharge / read of the same bank, at "
               "most one command of a kind per controller cycle).  The reference keeps the open row per bank and the value of one "
               "watched byte (symbolic bank, row, column, phase lane); each read of that location must return that byte exactly "
               "read_latency cycles later with rddata_valid, and rddata_valid may be raised for nothing else.  Memory starts zeroed.")


class FakeModule:
    def __init__(self, memtype, bankbits, rowbits, colbits):
        from litedram.common import GeomSettings
        self.memtype = memtype
        self.geom_settings = GeomSettings(bankbits=bankbits, rowbits=rowbits, colbits=colbits)
        self.geom_settings.addressbits = max(11, self.geom_settings.addressbits)


def model_bench(name, phy="sdr_1_1", bankbits=1, rowbits=2, colbits=4, dfi_databits=8, read_latency=None, controller_a10_skip=False):
    from litedram.phy.model import SDRAMPHYModel
    kw = dict(cfg.PHY_PRESETS[phy])
    kw["dfi_databits"] = dfi_databits
    if read_latency is not None:
        kw["read_latency"] = read_latency
    ps = cfg.phy_settings(**kw)
    mod = FakeModule(ps.memtype, bankbits, rowbits, colbits)

    class Top(Module):
        pass
    top = Top()
    top.submodules.dut = dut = SDRAMPHYModel(mod, settings=ps)
    dfi = dut.dfi
    nph = ps.nphases
    nb = 2**bankbits
    burst = {"SDR": 1, "DDR": 2, "LPDDR": 2, "DDR2": 2, "DDR3": 2, "DDR4": 2}[ps.memtype]
    cshift = log2_int(burst * nph)       # column bits covered by one controller-cycle burst
    wl, rl = ps.write_latency, ps.read_latency
    inputs = {}
    for i, ph in enumerate(dfi.phases):
        for n in ("cs_n", "ras_n", "cas_n", "we_n", "bank", "address", "wrdata", "wrdata_mask"):
            inputs["p%d_%s" % (i, n)] = getattr(ph, n)
    assumes, bads, covers = {}, {}, {}
    bad = _bad_adder(top, bads)

    def asm(n, e):
        s = Signal(name_override="asm_" + n)
        top.comb += s.eq(e)
        assumes[n] = s
    # ---- decode (independent of DFIPhaseModel) --------------------------------------------------
    dec = []
    for ph in dfi.phases:
        sel = ph.cs_n == 0
        d = dict(act=sel & (ph.ras_n == 0) & (ph.cas_n == 1) & (ph.we_n == 1),
                 pre=sel & (ph.ras_n == 0) & (ph.cas_n == 1) & (ph.we_n == 0),
                 rd=sel & (ph.ras_n == 1) & (ph.cas_n == 0) & (ph.we_n == 1),
                 wr=sel & (ph.ras_n == 1) & (ph.cas_n == 0) & (ph.we_n == 0),
                 other=sel & (((ph.ras_n == 0) & (ph.cas_n == 0)) | ((ph.ras_n == 1) & (ph.cas_n == 1) & (ph.we_n == 0))),
                 ph=ph)
        dec.append(d)
    for k in ("act", "pre", "rd", "wr"):
        n = sum([d[k] for d in dec[1:]], dec[0][k])
        asm("at_most_one_%s_per_cycle" % k, n <= 1)
    asm("no_refresh_mrs_zq_commands", ~monitors.any_([d["other"] for d in dec]))
    asm("not_read_and_write_in_one_cycle", ~(monitors.any_([d["rd"] for d in dec]) & monitors.any_([d["wr"] for d in dec])))
    # ---- reference bank state ---------------------------------------------------------------------
    opn = [Signal() for _ in range(nb)]
    row = [Signal(rowbits) for _ in range(nb)]
    wrec = [Signal(max=wl + 3) for _ in range(nb)]    # cycles until the last write's data phase is over
    cur_o, cur_r = list(opn), list(row)
    legal = []
    wr_b = [Constant(0, 1)] * nb
    for d in dec:
        ph = d["ph"]
        for b in range(nb):
            hit = ph.bank == b
            act = d["act"] & hit
            pre = d["pre"] & (hit | ph.address[10])
            cas = (d["rd"] | d["wr"]) & hit
            legal += [~(act & cur_o[b]), ~(cas & ~cur_o[b]),
                      ~(pre & cur_o[b] & (wrec[b] != 0)), ~(d["rd"] & hit & (wrec[b] != 0)),
                      ~(act & (wrec[b] != 0))]
            no = Signal()
            nr = Signal(rowbits)
            top.comb += [no.eq(Mux(act, 1, Mux(pre, 0, cur_o[b]))), nr.eq(Mux(act, ph.address[:rowbits], cur_r[b]))]
            cur_o[b], cur_r[b] = no, nr
            wr_b[b] = wr_b[b] | (d["wr"] & hit)
    for b in range(nb):
        top.sync += [opn[b].eq(cur_o[b]), row[b].eq(cur_r[b]),
                     wrec[b].eq(Mux(wr_b[b], wl + 1, Mux(wrec[b] == 0, 0, wrec[b] - 1)))]
        # a precharge or activate in the same cycle as (before) a CAS of the same bank is excluded too: one bank command per cycle
    per_bank_cmds = []
    for b in range(nb):
        n = sum([(d["act"] | d["rd"] | d["wr"]) & (d["ph"].bank == b) | (d["pre"] & ((d["ph"].bank == b) | d["ph"].address[10]))
                 for d in dec[1:]],
                (dec[0]["act"] | dec[0]["rd"] | dec[0]["wr"]) & (dec[0]["ph"].bank == b) |
                (dec[0]["pre"] & ((dec[0]["ph"].bank == b) | dec[0]["ph"].address[10])))
        per_bank_cmds.append(n <= 1)
    asm("one_command_per_bank_per_cycle", monitors.all_(per_bank_cmds))
    asm("trace_is_legal_for_the_reference_dram", monitors.all_(legal))
    # ---- watched byte -----------------------------------------------------------------------------
    WB = Signal(max=max(nb, 2), name_override="WBANK")
    WR = Signal(rowbits, name_override="WROW")
    WC = Signal(max(colbits - cshift, 1), name_override="WCOL")       # burst-aligned column index
    dwb = dfi_databits * nph // 8
    WL = Signal(max=max(dwb, 2), name_override="WLANE")
    val = Signal(8, name_override="ref_byte")

    def col_index(addr):
        if controller_a10_skip and colbits > 10:
            c = Cat(addr[:10], addr[11:colbits + 1])
        else:
            c = addr[:colbits]
        return c[cshift:] if colbits > cshift else Constant(0, 1)
    # writes: command at t, data at t+wl
    wr_hit = Signal()
    rd_hit = Signal()
    top.comb += [
        wr_hit.eq(monitors.any_([d["wr"] & (d["ph"].bank == WB) & (Array(row)[WB] == WR) & (col_index(d["ph"].address) == WC) for d in dec])),
        rd_hit.eq(monitors.any_([d["rd"] & (d["ph"].bank == WB) & (Array(row)[WB] == WR) & (col_index(d["ph"].address) == WC) for d in dec])),
    ]
    anyrd = Signal()
    top.comb += anyrd.eq(monitors.any_([d["rd"] for d in dec]))

    def delay(sig, n):
        for _ in range(n):
            r = Signal(len(sig))
            top.sync += r.eq(sig)
            sig = r
        return sig
    wr_data_now = delay(wr_hit, wl)
    all_wd = Cat(*[ph.wrdata for ph in dfi.phases])
    all_wm = Cat(*[ph.wrdata_mask for ph in dfi.phases])
    wbyte = Array([all_wd[8 * i:8 * i + 8] for i in range(dwb)])[WL]
    wmask = Array([all_wm[i] for i in range(dwb)])[WL]
    top.sync += If(wr_data_now & (wmask == 0), val.eq(wbyte))
    # reads: value as of the command cycle, returned rl cycles later
    exp_valid = delay(anyrd, rl)
    exp_hit = delay(rd_hit, rl)
    exp_val = delay(val, rl)
    all_rd = Cat(*[ph.rddata for ph in dfi.phases])
    rbyte = Array([all_rd[8 * i:8 * i + 8] for i in range(dwb)])[WL]
    vbits = Cat(*[ph.rddata_valid for ph in dfi.phases])
    bad("rddata_valid_not_exactly_read_latency_after_a_read", dfi.phases[0].rddata_valid != exp_valid)
    if nph > 1:
        bad("rddata_valid_not_replicated_on_all_phases", exp_valid & (vbits != 2**nph - 1))
    bad("read_of_watched_location_returns_other_than_last_written_byte", exp_hit & (rbyte != exp_val))
    asm("watched_location_in_range", (WB < nb) & (WL < dwb))
    c = Signal()
    s = monitors.Sticky(wr_data_now & (wmask == 0))
    top.submodules += s
    top.comb += c.eq(exp_hit & s.out & (exp_val != 0))
    covers["watched_byte_read_back_after_write"] = c
    b = bmc.Bench(name, top, inputs, consts={"WBANK": WB, "WROW": WR, "WCOL": WC, "WLANE": WL}, assumes=assumes, bads=bads,
                  covers=covers, info=dict(phy=phy, bankbits=bankbits, rowbits=rowbits, colbits=colbits, wl=wl, rl=rl))
    b.watch = {"val": val, "rdv": vbits, "open0": opn[0]}
    return b


CONFIGS = {
    "sdr_1_1": (dict(phy="sdr_1_1", read_latency=2), 12, 20, "qt"),
    "ddr3_1_4": (dict(phy="ddr3_1_4", read_latency=3, dfi_databits=8), 12, 18, "qt"),
    "ddr_1_2": (dict(phy="ddr_1_2", read_latency=2), 0, 18, "t"),
    "ddr2_1_2": (dict(phy="ddr2_1_2", read_latency=2), 0, 18, "t"),
    "ddr4_1_4": (dict(phy="ddr4_1_4", read_latency=2, dfi_databits=8), 0, 16, "t"),
    "sdr_4banks": (dict(phy="sdr_1_1", read_latency=2, bankbits=2), 0, 16, "t"),
}
BENCHES = {n: partial(model_bench, n, **c[0]) for n, c in CONFIGS.items()}


def run(ctx):
    ctx.assume("legal traces as the LiteDRAM controller produces them: at most one ACT / PRE / RD / WR per controller cycle, one "
               "command per bank per cycle, no PRE/RD/ACT of a bank while a write's data phase is pending (write_latency+1 cycles)")
    ctx.assume("tiny geometry (2-4 banks, 4 rows, 16 columns; address bus kept at 11 bits for A10), read pipeline shortened; "
               "memory starts zeroed (the init-image clause is not covered yet); refresh/MRS/ZQ commands excluded")
    for n, (kw, kq, kt, tiers) in CONFIGS.items():
        if ctx.only and not ctx.only.search(n):
            continue
        if ctx.tier == "quick" and "q" in tiers:
            ctx.add(n, kq, timeout=1200, min_K=9, chunk=3, diff_cycles=8, diff_max_comb=80)
        elif ctx.tier == "thorough":
            ctx.add(n, kt, timeout=3000, min_K=kq or 10, chunk=2, diff_cycles=8, diff_max_comb=80)
    ctx.run()
