"""C19 -- bundled DRAM simulation model agrees with an independent DRAM model."""
from functools import partial
import re
from migen import *
from vlib import bmc, monitors, cfg
from checks.c12 import _bad_adder

FILES = ["litedram/phy/model.py"]
LEVEL = "model_checking"
TECHNIQUE = ("bounded model checking (z3 QF_BV) of the elaborated real SDRAMPHYModel (bank memories expanded, latency pipelines) driven "
             "by a symbolic legal DFI trace, against an independent reference DRAM that tracks one symbolic watched byte (2048-column "
             "geometry: bank memories abstracted to the watched word, models replayed on the real memories); replay on migen.sim")
EXPLANATION = ("Every DFI phase input is a free solver variable per cycle, constrained only by the reference model's own legality "
               "predicate (ACT to a closed bank, CAS to an open bank, write recovery before precharge / read of the same bank, at "
               "most one command of a kind per controller cycle).  The reference keeps the open row per bank and the value of one "
               "watched byte (symbolic bank, row, column, phase lane); each read of that location must return that byte exactly "
               "read_latency cycles later with rddata_valid, and rddata_valid may be raised for nothing else.  Memory starts zeroed.")


class FakeModule:
    def __init__(self, memtype, bankbits, rowbits, colbits):
        from litedram.common import GeomSettings
        self.memtype = memtype
        self.geom_settings = GeomSettings(bankbits=bankbits, rowbits=rowbits, colbits=colbits)
        self.geom_settings.addressbits = max(11, self.geom_settings.addressbits)


def model_bench(name, phy="sdr_1_1", bankbits=1, rowbits=2, colbits=4, dfi_databits=8, read_latency=None, controller_a10_skip=False,
                abstract=False, watched_row_low_half=False):
    _args = dict(phy=phy, bankbits=bankbits, rowbits=rowbits, colbits=colbits, dfi_databits=dfi_databits, read_latency=read_latency,
                 controller_a10_skip=controller_a10_skip, watched_row_low_half=watched_row_low_half)
    from litedram.phy.model import SDRAMPHYModel
    kw = dict(cfg.PHY_PRESETS[phy])
    kw["dfi_databits"] = dfi_databits
    if read_latency is not None:
        kw["read_latency"] = read_latency
    ps = cfg.phy_settings(**kw)
    mod = FakeModule(ps.memtype, bankbits, rowbits, colbits)

    class Top(Module):
        pass
    top = Top()
    top.submodules.dut = dut = SDRAMPHYModel(mod, settings=ps)
    dfi = dut.dfi
    nph = ps.nphases
    nb = 2**bankbits
    burst = {"SDR": 1, "DDR": 2, "LPDDR": 2, "DDR2": 2, "DDR3": 2, "DDR4": 2}[ps.memtype]
    cshift = log2_int(burst * nph)       # column bits covered by one controller-cycle burst
    wl, rl = ps.write_latency, ps.read_latency
    inputs = {}
    for i, ph in enumerate(dfi.phases):
        for n in ("cs_n", "ras_n", "cas_n", "we_n", "bank", "address", "wrdata", "wrdata_mask"):
            inputs["p%d_%s" % (i, n)] = getattr(ph, n)
    assumes, bads, covers = {}, {}, {}
    bad = _bad_adder(top, bads)

    def asm(n, e):
        s = Signal(name_override="asm_" + n)
        top.comb += s.eq(e)
        assumes[n] = s
    # ---- decode (independent of DFIPhaseModel) --------------------------------------------------
    dec = []
    for ph in dfi.phases:
        sel = ph.cs_n == 0
        d = dict(act=sel & (ph.ras_n == 0) & (ph.cas_n == 1) & (ph.we_n == 1),
                 pre=sel & (ph.ras_n == 0) & (ph.cas_n == 1) & (ph.we_n == 0),
                 rd=sel & (ph.ras_n == 1) & (ph.cas_n == 0) & (ph.we_n == 1),
                 wr=sel & (ph.ras_n == 1) & (ph.cas_n == 0) & (ph.we_n == 0),
                 other=sel & (((ph.ras_n == 0) & (ph.cas_n == 0)) | ((ph.ras_n == 1) & (ph.cas_n == 1) & (ph.we_n == 0))),
                 ph=ph)
        dec.append(d)
    for k in ("act", "pre", "rd", "wr"):
        n = sum([d[k] for d in dec[1:]], dec[0][k])
        asm("at_most_one_%s_per_cycle" % k, n <= 1)
    # REFRESH / MODE REGISTER SET / ZQ calibration: legal only while every bank is precharged (checked against the reference bank
    # state below) and, as the controller issues them, alone in their cycle; they touch neither data nor bank state
    anyother = monitors.any_([d["other"] for d in dec])
    asm("refresh_mrs_zq_alone_in_their_cycle",
        ~(anyother & monitors.any_([d["act"] | d["pre"] | d["rd"] | d["wr"] for d in dec])))
    asm("not_read_and_write_in_one_cycle", ~(monitors.any_([d["rd"] for d in dec]) & monitors.any_([d["wr"] for d in dec])))
    # ---- reference bank state ---------------------------------------------------------------------
    opn = [Signal() for _ in range(nb)]
    row = [Signal(rowbits) for _ in range(nb)]
    wrec = [Signal(max=wl + 3) for _ in range(nb)]    # cycles until the last write's data phase is over
    cur_o, cur_r = list(opn), list(row)
    legal = []
    wr_b = [Constant(0, 1)] * nb
    for d in dec:
        ph = d["ph"]
        for b in range(nb):
            hit = ph.bank == b
            act = d["act"] & hit
            pre = d["pre"] & (hit | ph.address[10])
            cas = (d["rd"] | d["wr"]) & hit
            legal += [~(act & cur_o[b]), ~(cas & ~cur_o[b]),
                      ~(pre & (wrec[b] != 0)), ~(d["rd"] & hit & (wrec[b] != 0)),
                      ~(act & (wrec[b] != 0))]
            ap = cas & ph.address[10]
            no = Signal()
            nr = Signal(rowbits)
            top.comb += [no.eq(Mux(act, 1, Mux(pre | ap, 0, cur_o[b]))), nr.eq(Mux(act, ph.address[:rowbits], cur_r[b]))]
            cur_o[b], cur_r[b] = no, nr
            wr_b[b] = wr_b[b] | (d["wr"] & hit)
    for b in range(nb):
        top.sync += [opn[b].eq(cur_o[b]), row[b].eq(cur_r[b]),
                     wrec[b].eq(Mux(wr_b[b], wl + 1, Mux(wrec[b] == 0, 0, wrec[b] - 1)))]
        # a precharge or activate in the same cycle as (before) a CAS of the same bank is excluded too: one bank command per cycle
    per_bank_cmds = []
    for b in range(nb):
        n = sum([(d["act"] | d["rd"] | d["wr"]) & (d["ph"].bank == b) | (d["pre"] & ((d["ph"].bank == b) | d["ph"].address[10]))
                 for d in dec[1:]],
                (dec[0]["act"] | dec[0]["rd"] | dec[0]["wr"]) & (dec[0]["ph"].bank == b) |
                (dec[0]["pre"] & ((dec[0]["ph"].bank == b) | dec[0]["ph"].address[10])))
        per_bank_cmds.append(n <= 1)
    asm("one_command_per_bank_per_cycle", monitors.all_(per_bank_cmds))
    asm("trace_is_legal_for_the_reference_dram", monitors.all_(legal))
    asm("refresh_mrs_zq_only_with_all_banks_precharged_and_no_write_pending",
        ~anyother | monitors.all_([(opn[b] == 0) & (wrec[b] == 0) for b in range(nb)]))
    oseen = monitors.Sticky(anyother)
    top.submodules += oseen
    # rows as seen by a CAS in this cycle (bank state before this cycle's commands: one command per bank per cycle)
    # ---- watched byte -----------------------------------------------------------------------------
    WB = Signal(max=max(nb, 2), name_override="WBANK")
    WR = Signal(rowbits, name_override="WROW")
    WC = Signal(max(colbits - cshift, 1), name_override="WCOL")       # burst-aligned column index
    if watched_row_low_half:
        # memory abstraction: a model that reads another word than the watched one gets a free value and does not replay; with the
        # watched row in the lower half a dropped/aliased top row bit shows as a WRITE to the alias row landing in the watched word
        asm("watched_row_in_lower_half_of_the_row_space", WR[rowbits - 1] == 0)
    dwb = dfi_databits * nph // 8
    WL = Signal(max=max(dwb, 2), name_override="WLANE")
    val = Signal(8, name_override="ref_byte")

    def col_index(addr):
        if controller_a10_skip and colbits > 10:
            c = Cat(addr[:10], addr[11:colbits + 1])
        else:
            c = addr[:colbits]
        return c[cshift:] if colbits > cshift else Constant(0, 1)
    # writes: command at t, data at t+wl
    wr_hit = Signal()
    rd_hit = Signal()
    top.comb += [
        wr_hit.eq(monitors.any_([d["wr"] & (d["ph"].bank == WB) & (Array(row)[WB] == WR) & (col_index(d["ph"].address) == WC) for d in dec])),
        rd_hit.eq(monitors.any_([d["rd"] & (d["ph"].bank == WB) & (Array(row)[WB] == WR) & (col_index(d["ph"].address) == WC) for d in dec])),
    ]
    anyrd = Signal()
    top.comb += anyrd.eq(monitors.any_([d["rd"] for d in dec]))

    def delay(sig, n):
        for _ in range(n):
            r = Signal(len(sig))
            top.sync += r.eq(sig)
            sig = r
        return sig
    wr_data_now = delay(wr_hit, wl)
    all_wd = Cat(*[ph.wrdata for ph in dfi.phases])
    all_wm = Cat(*[ph.wrdata_mask for ph in dfi.phases])
    wbyte = Array([all_wd[8 * i:8 * i + 8] for i in range(dwb)])[WL]
    wmask = Array([all_wm[i] for i in range(dwb)])[WL]
    top.sync += If(wr_data_now & (wmask == 0), val.eq(wbyte))
    # reads: value as of the command cycle, returned rl cycles later
    exp_valid = delay(anyrd, rl)
    exp_hit = delay(rd_hit, rl)
    exp_val = delay(val, rl)
    all_rd = Cat(*[ph.rddata for ph in dfi.phases])
    rbyte = Array([all_rd[8 * i:8 * i + 8] for i in range(dwb)])[WL]
    vbits = Cat(*[ph.rddata_valid for ph in dfi.phases])
    bad("rddata_valid_not_exactly_read_latency_after_a_read", dfi.phases[0].rddata_valid != exp_valid)
    if nph > 1:
        bad("rddata_valid_not_replicated_on_all_phases", exp_valid & (vbits != 2**nph - 1))
    bad("read_of_watched_location_returns_other_than_last_written_byte", exp_hit & (rbyte != exp_val))
    asm("watched_location_in_range", (WB < nb) & (WL < dwb))
    c = Signal()
    s = monitors.Sticky(wr_data_now & (wmask == 0))
    top.submodules += s
    top.comb += c.eq(exp_hit & s.out & (exp_val != 0))
    covers["watched_byte_read_back_after_write"] = c
    c4 = Signal()
    top.comb += c4.eq(exp_hit & s.out & oseen.out)
    covers["watched_byte_read_after_a_refresh_or_mode_register_command"] = c4
    apseen = monitors.Sticky(monitors.any_([(d["rd"] | d["wr"]) & d["ph"].address[10] for d in dec]))
    top.submodules += apseen
    c3 = Signal()
    top.comb += c3.eq(exp_hit & apseen.out & s.out)
    covers["watched_byte_read_after_an_auto_precharge_and_reactivation"] = c3
    extra = {}
    if abstract:
        # large geometries: every bank memory keeps only the word the watched location lives in (address = {row, burst-aligned
        # column index}, the model's own wraddr/rdaddr layout); other words return arbitrary data; models are replayed on the
        # un-abstracted twin built by concrete_factory
        extra = dict(abstract_memories=lambda mem: Cat(WC, WR), concrete_factory=partial(model_bench, name, **_args))
    b = bmc.Bench(name, top, inputs, consts={"WBANK": WB, "WROW": WR, "WCOL": WC, "WLANE": WL}, assumes=assumes, bads=bads,
                  covers=covers, info=dict(phy=phy, bankbits=bankbits, rowbits=rowbits, colbits=colbits, wl=wl, rl=rl,
                                           memory_abstraction=bool(abstract)), **extra)
    b.watch = {"val": val, "rdv": vbits, "open0": opn[0]}
    return b


CONFIGS = {
    "sdr_1_1": (dict(phy="sdr_1_1", read_latency=2), 12, 20, "qt"),
    "ddr3_1_4": (dict(phy="ddr3_1_4", read_latency=3, dfi_databits=8), 12, 18, "qt"),
    "ddr_1_2": (dict(phy="ddr_1_2", read_latency=2), 0, 18, "t"),
    "ddr2_1_2": (dict(phy="ddr2_1_2", read_latency=2), 0, 18, "t"),
    "ddr4_1_4": (dict(phy="ddr4_1_4", read_latency=2, dfi_databits=8), 0, 16, "t"),
    "sdr_4banks": (dict(phy="sdr_1_1", read_latency=2, bankbits=2), 0, 16, "t"),
    # 2048 columns (MT46H128M16 is such a module): JEDEC/controller column = {A11, A9..A0}, A10 = auto-precharge
    "widecol_ddr_1_2_c11": (dict(phy="ddr_1_2", read_latency=2, rowbits=2, colbits=11, controller_a10_skip=True, abstract=True), 9, 12, "qt"),
    # rows as wide as the address bus (rowbits == addressbits, true of most library modules): every row bit incl. the top one matters
    "fullrow_sdr_1_1_r11": (dict(phy="sdr_1_1", read_latency=2, rowbits=11, colbits=4, abstract=True, watched_row_low_half=True), 9, 12, "qt"),
    "abs_ddr3_1_4_c10_r6": (dict(phy="ddr3_1_4", read_latency=3, dfi_databits=8, rowbits=6, colbits=10, abstract=True), 0, 14, "t"),
}
BENCHES = {n: partial(model_bench, n, **c[0]) for n, c in CONFIGS.items()}


def init_image_job(cfg):
    """initial contents are laid out according to the selected address mapping: the REAL __prepare_bank_init_data is run on an
    injective image; z3 decides, for a symbolic word address, whether the word stored at the location the mapping assigns to it
    equals the image word"""
    import time
    import z3
    from litedram.phy.model import SDRAMPHYModel
    memtype, nph, databits, dfi_databits, bankbits, rowbits, colbits, mapping, nwords32 = cfg
    label = "init_%s_dw%d_%s_%dwords" % (memtype, dfi_databits * nph, mapping, nwords32)
    recs = []
    t0 = time.time()
    try:
        obj = SDRAMPHYModel.__new__(SDRAMPHYModel)
        obj.settings = type("S", (), {})()
        obj.settings.databits = databits
        nbanks, nrows, ncols = 2**bankbits, 2**rowbits, 2**colbits
        data_width = dfi_databits * nph
        dwb = data_width // 8
        init = [((i * 0x9E3779B1 + 0x1234567) & 0xffffffff) | 1 for i in range(nwords32)]     # injective, non-zero 32-bit words
        image_bytes = b"".join(int(w).to_bytes(4, "little") for w in init)
        bank_init = obj._SDRAMPHYModel__prepare_bank_init_data(list(init), nbanks, nrows, ncols, data_width, mapping)
        mem_bytes = (databits // 8) * nrows * ncols * nbanks
        total_words = mem_bytes // dwb
        words_per_bank = total_words // nbanks
        words_per_row = words_per_bank // nrows
        # independent expectation
        def image_word(L):
            chunk = image_bytes[L * dwb:(L + 1) * dwb]
            chunk = chunk + bytes(dwb - len(chunk))
            return int.from_bytes(chunk, "little")
        W = max(1, (total_words - 1).bit_length())
        Lv = z3.BitVec("L", W + 1)
        img = z3.BitVecVal(0, data_width)
        for L in range(total_words - 1, -1, -1):
            img = z3.If(Lv == L, z3.BitVecVal(image_word(L), data_width), img)
        # what the real function stored, addressed through the mapping
        stored = z3.BitVecVal(0, data_width)
        for L in range(total_words - 1, -1, -1):
            if mapping == "ROW_BANK_COL":
                row, rem = divmod(L, nbanks * words_per_row)
                bank, c = divmod(rem, words_per_row)
            else:
                bank, rem = divmod(L, words_per_bank)
                row, c = divmod(rem, words_per_row)
            idx = row * words_per_row + c
            lst = bank_init[bank] or []
            v = int(lst[idx]) if idx < len(lst) else 0
            stored = z3.If(Lv == L, z3.BitVecVal(v & (2**data_width - 1), data_width), stored)
        s = z3.Solver()
        s.add(z3.ULT(Lv, total_words), stored != img)
        r = str(s.check())
        rec = dict(q="initial_contents_follow_%s_mapping" % mapping, result=r, s=round(time.time() - t0, 3), expect="unsat")
        if r == "sat":
            m = s.model()
            L = m[Lv].as_long()
            rec["model"] = dict(word_address=L, image_word=hex(image_word(L)), stored=str(m.eval(stored)))
        recs.append(rec)
        s2 = z3.Solver()
        s2.add(z3.ULT(Lv, total_words), img != 0, Lv >= words_per_bank)
        recs.append(dict(q="witness_image_reaches_beyond_first_bank", result=str(s2.check()), s=0.0,
                         expect="sat" if nwords32 * 4 > mem_bytes // nbanks else "unsat"))
    except Exception as e:
        import traceback
        recs.append(dict(q="encode", result="unknown", s=0.0, expect="unsat", detail="%r %s" % (e, traceback.format_exc()[-500:])))
    return label, cfg, recs


INIT_CFGS = [
    # memtype, nphases, databits, dfi_databits, bankbits, rowbits, colbits, mapping, image size in 32-bit words
    ("SDR", 1, 32, 32, 2, 3, 3, "ROW_BANK_COL", 256), ("SDR", 1, 32, 32, 2, 3, 3, "BANK_ROW_COL", 256),
    ("SDR", 1, 16, 16, 2, 3, 3, "ROW_BANK_COL", 128), ("SDR", 1, 16, 16, 2, 3, 3, "BANK_ROW_COL", 100),
    ("SDR", 1, 8, 8, 1, 2, 3, "ROW_BANK_COL", 16), ("SDR", 1, 8, 8, 1, 2, 3, "BANK_ROW_COL", 16),
    ("DDR3", 4, 8, 16, 2, 2, 4, "ROW_BANK_COL", 64), ("DDR3", 4, 8, 16, 2, 2, 4, "BANK_ROW_COL", 64),
    ("DDR3", 4, 8, 16, 2, 2, 4, "BANK_ROW_COL", 40), ("SDR", 1, 32, 32, 2, 3, 3, "ROW_BANK_COL", 37),
]


def run(ctx):
    import multiprocessing
    import concurrent.futures as cf
    with cf.ProcessPoolExecutor(max_workers=4, mp_context=multiprocessing.get_context("fork")) as ex:
        for label, cfg, recs in ex.map(init_image_job, INIT_CFGS, chunksize=1):
            for r in recs:
                ql = "%s:%s" % (label, r["q"])
                ctx.oblige(ql, r["result"], r["s"], expect=r["expect"], detail=r.get("detail") or r.get("model"))
                if r["expect"] != "unsat":
                    if r["result"] != r["expect"]:
                        ctx.inconclusive.append("%s: witness mismatch" % ql)
                    continue
                if r["result"] == "sat":
                    path = ctx.write_replay(label, r["q"], dict(config=list(cfg), model=r.get("model")))
                    ctx.violation(label, r["q"], path)
    ctx.assume("legal traces as the LiteDRAM controller produces them: at most one ACT / PRE / RD / WR per controller cycle, one "
               "command per bank per cycle, no PRE/RD/ACT of a bank while a write's data phase is pending (write_latency+1 cycles)")
    ctx.assume("a read or write with A10=1 auto-precharges its bank in the reference (a later ACT without PRE is legal)")
    ctx.assume("tiny geometry (2-4 banks, 4 rows, 16 columns; address bus kept at 11 bits for A10), read pipeline shortened; "
               "trace benches start from zeroed memory; refresh/MRS/ZQ commands allowed while all banks are precharged (no-ops for data)")
    ctx.assume("abstracted benches (widecol_*, fullrow_*, abs_*): each bank memory keeps only the word of the watched location, models "
               "are replayed on the real memories; fullrow_sdr_1_1_r11 (rowbits == addressbits == 11) assumes the WATCHED row is in the "
               "lower half of the row space (accessed rows are free) so that row-aliasing counterexamples replay")
    ctx.assume("init-image clause: the real __prepare_bank_init_data is executed on injective images (several sizes incl. partial "
               "and multi-bank); the layout query quantifies over every word address of the small memory")
    for n, (kw, kq, kt, tiers) in CONFIGS.items():
        if ctx.only and not ctx.only.search(n):
            continue
        if ctx.tier == "quick" and "q" in tiers:
            ctx.add(n, kq, timeout=1200, min_K=9, chunk=3, diff_cycles=8, diff_max_comb=80)
        elif ctx.tier == "thorough":
            ctx.add(n, kt, timeout=3000, min_K=kq or 10, chunk=2, diff_cycles=8, diff_max_comb=80)
    ctx.run()
