"""C02 -- DRAM command stream obeys the bank state machine."""
from functools import partial
from migen import *
from vlib import corebench, monitors

FILES = ["litedram/core/bankmachine.py", "litedram/core/multiplexer.py", "litedram/core/refresher.py",
         "litedram/phy/dfi.py", "litedram/core/controller.py", "litedram/core/crossbar.py"]
LEVEL = "model_checking"
TECHNIQUE = "bounded model checking (z3 QF_BV) of the elaborated FHDL of the real controller+crossbar with a DFI-side bank-state monitor; counterexamples replayed on migen.sim"
EXPLANATION = ("BMC from reset (refresh timer phase symbolic) of LiteDRAMController+LiteDRAMCrossbar; every port input "
               "is a fresh solver variable per cycle; a Migen monitor reconstructs per-(rank,bank) open/closed state "
               "and open row from the DFI command phases only.")

STATE_BADS = ["act_to_open_bank", "cas_to_closed_bank", "ref_or_zqcs_with_open_bank",
              "rd_wr_on_wrong_phase_or_data_enable_mismatch", "chip_select_not_single_rank",
              "refresh_not_to_all_ranks", "unexpected_mrs_command"]


def _extra(core, top, mon, kw):
    kw["bads"] = {k: v for k, v in mon.bads.items() if k in STATE_BADS}
    # witnesses: a refresh happens with traffic around it, reads and writes and auto-precharge occur
    rd_after_ref = Signal()
    s_ref = monitors.Sticky(mon.now["ref"])
    s_wr = monitors.Sticky(mon.now["wr"])
    top.submodules += s_ref, s_wr
    kw["covers"]["rd_after_refresh_after_wr"] = rd_after_ref
    top.comb += rd_after_ref.eq(mon.now["rd"] & mon.seen["ref"] & mon.seen["wr"])
    if core.ctrl_settings.with_auto_precharge:
        kw["covers"]["auto_precharge_then_act"] = cov = Signal()
        top.comb += cov.eq(mon.now["act"] & mon.seen["ap"])
    kw["covers"]["explicit_precharge"] = mon.now["pre"]


T_SMALL = dict(tRP=2, tRCD=2, tWR=2, tWTR=2, tREFI=100, tRFC=3, tFAW=None, tCCD=1, tRRD=None, tRC=None, tRAS=None)
T_FULL = dict(tRP=2, tRCD=2, tWR=2, tWTR=2, tREFI=100, tRFC=4, tFAW=6, tCCD=2, tRRD=2, tRC=6, tRAS=4, tZQCS=3)

CONFIGS = {
    # name: (core kwargs, K quick, K thorough, tiers)
    "sdr_2b_2p": (dict(phy="sdr_fast", bankbits=1, nports=2, timing=T_SMALL, ctrl=dict(cmd_buffer_depth=4)), 36, 60, "qt"),
    "ddr3_1_4_2b_2p": (dict(phy="ddr3_fast", bankbits=1, nports=2, timing=T_SMALL, ctrl=dict(cmd_buffer_depth=4)), 36, 60, "qt"),
    "ddr3_1_4_wrphase0": (dict(phy="ddr3_fast_wr0", bankbits=1, nports=2, timing=T_SMALL, ctrl=dict(cmd_buffer_depth=4)), 30, 50, "qt"),
    "ddr3_1_4_2rank": (dict(phy="ddr3_fast", bankbits=1, nports=2, nranks=2, timing=T_SMALL, ctrl=dict(cmd_buffer_depth=4)), 24, 30, "qt", False),
    "sdr_noap_fulltimings": (dict(phy="sdr_fast", bankbits=1, nports=2, timing=T_FULL, ctrl=dict(cmd_buffer_depth=4, with_auto_precharge=False)), 36, 60, "qt"),
    "ddr_1_2_4b_3p": (dict(phy="ddr3_fast2", bankbits=2, nports=3, timing=T_FULL, ctrl=dict(cmd_buffer_depth=4, cmd_buffer_buffered=True)), 0, 44, "t"),
    "ddr3_1_4_postpone2": (dict(phy="ddr3_fast", bankbits=1, nports=2, timing=T_SMALL, ctrl=dict(cmd_buffer_depth=8, refresh_postponing=2)), 0, 50, "t"),
}

BENCHES = {n: partial(corebench.core_bench, n, c[0], None, False, _extra) for n, c in CONFIGS.items()}
# (5th tuple element False: the refresh-then-read witness needs more frames than this heavier bench is given; its other witnesses
#  are still required to be reachable... they are optional as a group, so the bench only adds violation queries)


def run(ctx):
    ctx.assume("ports: completely unconstrained inputs every cycle (stronger than the master contract)")
    ctx.assume("refresh timer/postponer start at any in-range value (reachable from reset by idling)")
    ctx.assume("geometries reduced (1-2 bank bits, 11 row bits, 4 column bits); address arithmetic is C06's subject")
    ctx.assume("row-of-request clause (CAS goes to the row the request addressed) is decided by C01's ordinal monitors")
    for n, cfg_ in CONFIGS.items():
        c, kq, kt, tiers = cfg_[:4]
        cov_req = cfg_[4] if len(cfg_) > 4 else True
        if ctx.only and not ctx.only.search(n):
            continue
        if ctx.tier == "quick" and "q" in tiers:
            ctx.add(n, kq, timeout=1800, cover_required=cov_req)
        elif ctx.tier == "thorough":
            ctx.add(n, kt, timeout=1200, min_K=kq or 30, chunk=2, cover_required=cov_req)
    ctx.run()
