"""C10 -- Wishbone port: one acknowledge per access and memory semantics."""
from functools import partial
from migen import *
from litedram.common import LiteDRAMNativePort
from vlib import bmc, memstub, monitors
from checks.c12 import _bad_adder

FILES = ["litedram/frontend/wishbone.py", "litedram/frontend/adapter.py"]
LEVEL = "model_checking"
TECHNIQUE = ("bounded model checking (z3 QF_BV) of the elaborated real LiteDRAMWishbone2Native (equal width; narrow bus with write-merge "
             "buffer and read cache; wide bus through the real down-converter) between a free Wishbone master that may abort at any "
             "cycle and a nondeterministic in-order memory stub; one watched byte tracked exactly on both sides; replay on migen.sim")
EXPLANATION = ("cyc/stb/we/adr/sel/dat_w/cti are free per cycle under the classic handshake rule (stable while stb&cyc until ack, or "
               "the master drops cyc = abort).  A byte of memory with symbolic address and lane is tracked in the memory stub and, "
               "independently, in a reference updated by acknowledged writes; every acknowledged read of it must return the reference "
               "(an aborted write to it makes the reference unknown until the next acknowledged write).  Acknowledge only while cyc&stb, "
               "never for an access the memory has not served; read data from the memory is never dropped.")


def wb_bench(name, wb_dw=32, port_dw=32, base=0, aw_native=4, write_aborts=False, queued_wdata=False):
    from litex.soc.interconnect import wishbone
    from litedram.frontend.wishbone import LiteDRAMWishbone2Native
    ratio_up = port_dw // wb_dw if port_dw > wb_dw else 1       # narrow bus
    ratio_down = wb_dw // port_dw if wb_dw > port_dw else 1     # wide bus
    aw_wb = aw_native + (log2_int(ratio_up) if ratio_up > 1 else 0) - (log2_int(ratio_down) if ratio_down > 1 else 0)
    off_words = base >> log2_int(wb_dw // 8)
    wb = wishbone.Interface(data_width=wb_dw, adr_width=aw_wb + 2, addressing="word")
    port = LiteDRAMNativePort("both", aw_native, port_dw)

    class Top(Module):
        pass
    top = Top()
    top.submodules.dut = LiteDRAMWishbone2Native(wb, port, base_address=base)
    wbb, nb = wb_dw // 8, port_dw // 8
    WA = Signal(aw_wb, name_override="WA")               # watched wishbone word (relative to base)
    WL = Signal(max=max(wbb, 2), name_override="WL")
    mem = Signal(8, name_override="mem_byte")
    ref = Signal(8, name_override="ref_byte")
    ref_known = Signal(reset=1)
    na = Signal(aw_native)
    nl = Signal(max=max(nb, 2))
    if ratio_up > 1:
        top.comb += [na.eq(WA[log2_int(ratio_up):]), nl.eq(WA[:log2_int(ratio_up)] * wbb + WL)]
    elif ratio_down > 1:
        top.comb += [na.eq(WA * ratio_down + (WL >> log2_int(nb) if nb > 1 else WL)), nl.eq(WL[:log2_int(nb)] if nb > 1 else 0)]
    else:
        top.comb += [na.eq(WA), nl.eq(WL)]
    stub = memstub.NativeMemStub(port, na, nl, mem, depth=2, queued_wdata=queued_wdata)
    top.submodules.stub = stub
    # the bridge withdraws its native command when the master aborts: not part of this property
    stub.bads.pop("frontend_changes_or_drops_unaccepted_command", None)
    inputs = {"cyc": wb.cyc, "stb": wb.stb, "we": wb.we, "adr": wb.adr, "sel": wb.sel, "dat_w": wb.dat_w, "cti": wb.cti}
    inputs.update(stub.inputs)
    assumes = {}
    bads = dict(stub.bads)
    bad = _bad_adder(top, bads)

    def asm(n, e):
        s = Signal(name_override="asm_" + n)
        top.comb += s.eq(e)
        assumes[n] = s
    active = Signal()
    top.comb += active.eq(wb.cyc & wb.stb)
    p_act = Signal()
    p_ack = Signal()
    pl = [Signal(len(x)) for x in (wb.we, wb.adr, wb.sel, wb.dat_w, wb.cti)]
    top.sync += [p_act.eq(active), p_ack.eq(wb.ack)] + [q.eq(x) for q, x in zip(pl, (wb.we, wb.adr, wb.sel, wb.dat_w, wb.cti))]
    same = monitors.all_([q == x for q, x in zip(pl, (wb.we, wb.adr, wb.sel, wb.dat_w, wb.cti))])
    # while an access is pending (active, not acked) the master either holds it unchanged or aborts by dropping cyc
    pending_prev = p_act & ~p_ack
    asm("access_held_until_ack_or_abort", ~pending_prev | ~wb.cyc | (active & same))
    asm("stb_only_with_cyc", ~wb.stb | wb.cyc)
    if not write_aborts:
        asm("master_does_not_abort_write_accesses", ~(pending_prev & pl[0] & ~wb.cyc))
    asm("address_inside_window", ~active | ((wb.adr >= off_words) & (wb.adr < off_words + 2**aw_wb)))
    asm("watched_lane_in_range", WL < wbb)
    rel = Signal(aw_wb)
    top.comb += rel.eq(wb.adr - off_words)
    hit = Signal()
    top.comb += hit.eq(rel == WA)
    sel_lane = memstub.bit_of(wb.sel, WL, wbb)
    wbyte = memstub.byte_of(wb.dat_w, WL, wbb)
    rbyte = memstub.byte_of(wb.dat_r, WL, wbb)
    acked_wr = wb.ack & active & wb.we & hit & sel_lane
    aborted_wr = pending_prev & ~wb.cyc & pl[0] & ((pl[1] - off_words)[:aw_wb] == WA) & memstub.bit_of(pl[2], WL, wbb)
    top.sync += [
        If(acked_wr, ref.eq(wbyte), ref_known.eq(1)).Elif(aborted_wr, ref_known.eq(0)),
    ]
    bad("acknowledge_without_active_access", wb.ack & ~active)
    bad("acknowledged_read_returns_other_than_last_written_byte", wb.ack & active & ~wb.we & hit & ref_known & (rbyte != ref))
    # every acknowledged access was served: acks never outnumber what the memory side has seen for reads
    covers = {}

    def cov(n, e):
        s = Signal()
        top.comb += s.eq(e)
        covers[n] = s
    sw = monitors.Sticky(acked_wr)
    sa = monitors.Sticky(pending_prev & ~wb.cyc)
    top.submodules += sw, sa
    cov("watched_byte_read_back_after_acknowledged_write", wb.ack & active & ~wb.we & hit & sw.out)
    cov("access_acknowledged_after_an_abort", wb.ack & active & sa.out)
    b = bmc.Bench(name, top, inputs, consts={"WA": WA, "WL": WL}, free_init={"mem_byte": mem, "ref_byte": ref},
                  init_assume=[mem == ref], assumes=assumes, bads=bads, covers=covers,
                  info=dict(wb_dw=wb_dw, port_dw=port_dw, base=base))
    b.watch = {"cyc": wb.cyc, "stb": wb.stb, "we": wb.we, "adr": wb.adr, "sel": wb.sel, "dat_w": wb.dat_w, "ack": wb.ack, "dat_r": wb.dat_r,
               "n_v": port.cmd.valid, "n_r": port.cmd.ready, "n_we": port.cmd.we, "n_a": port.cmd.addr, "mem": mem, "ref": ref,
               "known": ref_known}
    return b



def n2w_bench(name, dw=32, base=0, addressing="word", aw_native=6):
    """reverse bridge LiteDRAMNative2Wishbone: free native master (contract assumed) -> real bridge -> Wishbone slave stub that
    acknowledges whenever it likes and really stores one watched byte"""
    from litex.soc.interconnect import wishbone
    from litedram.frontend.wishbone import LiteDRAMNative2Wishbone
    from litedram.common import LiteDRAMNativePort
    from vlib import memstub
    nb = dw // 8
    port = LiteDRAMNativePort("both", aw_native, dw)
    wb = wishbone.Interface(data_width=dw, adr_width=32 if addressing == "byte" else 30, addressing=addressing)

    class Top(Module):
        pass
    top = Top()
    top.submodules.dut = LiteDRAMNative2Wishbone(port, wb, base_address=base)
    WA = Signal(aw_native, name_override="WA")
    WL = Signal(max=nb, name_override="WL")
    mem = Signal(8, name_override="mem_byte")
    ref = Signal(8, name_override="ref_byte")
    # native master of the reverse bridge: command and write data are independent streams -- the data beat of a write may be
    # offered before, with or (any number of cycles) after its command, each held until taken; reads always accept their data
    class _Env:
        pass
    env = _Env()
    inputs = {"user_cmd_valid": port.cmd.valid, "user_cmd_we": port.cmd.we, "user_cmd_addr": port.cmd.addr,
              "user_wdata_valid": port.wdata.valid, "user_wdata_data": port.wdata.data, "user_wdata_we": port.wdata.we}
    top.comb += port.rdata.ready.eq(1)
    assumes = {}
    bads = {}
    covers = {}
    cc_ = monitors.StreamContract(port.cmd.valid, port.cmd.ready, [port.cmd.we, port.cmd.addr])
    cw_ = monitors.StreamContract(port.wdata.valid, port.wdata.ready, [port.wdata.data, port.wdata.we])
    top.submodules += cc_, cw_
    assumes["user_cmd_held_until_accepted"] = cc_.ok
    assumes["user_wdata_held_until_taken"] = cw_.ok
    e_acc = Signal()
    e_dt = Signal()
    top.comb += [e_acc.eq(port.cmd.valid & port.cmd.ready), e_dt.eq(port.wdata.valid & port.wdata.ready)]
    owed = Signal(2)          # write commands accepted whose data beat has not been taken yet (the bridge is serial: 0 or 1)
    e_hit = Signal()          # ... and that command addresses the watched word
    top.sync += [owed.eq(owed + (e_acc & port.cmd.we) - e_dt), If(e_acc & port.cmd.we, e_hit.eq(port.cmd.addr == WA))]
    a1 = Signal()
    top.comb += a1.eq(~port.wdata.valid | (owed != 0) | (port.cmd.valid & port.cmd.we))
    assumes["user_offers_a_data_beat_only_for_a_presented_or_accepted_write"] = a1
    wr_hit = Signal()
    top.comb += wr_hit.eq(e_dt & Mux(owed != 0, e_hit, port.cmd.addr == WA) & memstub.bit_of(port.wdata.we, WL, nb))
    top.sync += If(wr_hit, ref.eq(memstub.byte_of(port.wdata.data, WL, nb)))
    r_pend = Signal()
    r_hit = Signal()
    top.sync += [If(port.rdata.valid, r_pend.eq(0)), If(e_acc & ~port.cmd.we, r_pend.eq(1), r_hit.eq(port.cmd.addr == WA))]
    rd_beat = Signal()
    top.comb += rd_beat.eq(port.rdata.valid & r_pend & r_hit)
    sb_ = Signal(name_override="bad_read_returns_wrong_byte")
    top.comb += sb_.eq(rd_beat & (memstub.byte_of(port.rdata.data, WL, nb) != ref))
    bads["read_returns_wrong_byte"] = sb_
    late = Signal()
    age_ = Signal(3)
    top.sync += If(owed != 0, age_.eq(Mux(age_ == 7, 7, age_ + 1))).Else(age_.eq(0))
    top.comb += late.eq(e_dt & (age_ >= 3))
    env.wr_hit, env.rd_watched_beat = wr_hit, rd_beat
    ack_go = Signal(name_override="slave_ack_go")
    other = Signal(dw, name_override="slave_dat_r_other")
    inputs.update({"slave_ack_go": ack_go, "slave_dat_r_other": other})

    def expected_adr(a):
        # what a Wishbone slave mapped at base_address must see for native word address a
        return (a * nb + base) if addressing == "byte" else (a + base // nb)
    alen = len(wb.adr)
    wadr = Signal(alen)
    hit = Signal()
    top.comb += [wadr.eq(expected_adr(WA)), hit.eq(wb.adr == wadr)]
    # slave: combinational acknowledge of a presented access, one byte of real storage
    top.comb += wb.ack.eq(wb.cyc & wb.stb & ack_go)
    lanes = []
    for i in range(nb):
        lanes.append(Mux(hit & (WL == i), mem, other[8 * i:8 * i + 8]))
    top.comb += wb.dat_r.eq(Cat(*lanes))
    top.sync += If(wb.ack & wb.we & hit & memstub.bit_of(wb.sel, WL, nb), mem.eq(memstub.byte_of(wb.dat_w, WL, nb)))
    pend = Signal()
    p_we = Signal()
    p_a = Signal(aw_native)
    acc = Signal()
    top.comb += acc.eq(port.cmd.valid & port.cmd.ready)
    done = Signal()
    top.comb += done.eq(wb.ack)
    top.sync += [If(done, pend.eq(0)), If(acc, pend.eq(1), p_we.eq(port.cmd.we), p_a.eq(port.cmd.addr))]
    one = Signal()
    top.comb += one.eq(~(acc & pend & ~done))
    assumes["monitor_follows_one_command_at_a_time(the_bridge_is_serial)"] = one
    access = Signal()
    top.comb += access.eq(wb.cyc & wb.stb)

    def addbad(n, e):
        sg = Signal(name_override="bad_" + n)
        top.comb += sg.eq(e)
        bads[n] = sg
    addbad("wishbone_access_without_a_pending_native_command", access & ~pend)
    addbad("wishbone_address_is_not_base_plus_commanded_address", access & pend & (wb.adr != expected_adr(p_a)))
    addbad("wishbone_direction_differs_from_command", access & pend & (wb.we != p_we))
    addbad("write_select_or_data_differs_from_native_write_data", access & wb.we & ((wb.sel != port.wdata.we) | (wb.dat_w != port.wdata.data)))
    addbad("read_does_not_select_all_bytes", access & ~wb.we & (wb.sel != 2**nb - 1))
    addbad("native_write_data_taken_without_acknowledged_write", port.wdata.ready & ~(wb.ack & wb.we))
    addbad("acknowledged_write_does_not_take_the_native_write_data", wb.ack & wb.we & ~(port.wdata.ready & port.wdata.valid))
    addbad("native_read_data_without_acknowledged_read", port.rdata.valid & ~(wb.ack & ~wb.we))
    addbad("acknowledged_read_not_returned_to_native_port", wb.ack & ~wb.we & ~(port.rdata.valid & (port.rdata.data == wb.dat_r)))
    # classic Wishbone: a presented access stays unchanged until it is acknowledged
    pv = Signal()
    pa = Signal(alen)
    pw = Signal()
    psel = Signal(nb)
    pd = Signal(dw)
    top.sync += [pv.eq(access & ~wb.ack), pa.eq(wb.adr), pw.eq(wb.we), psel.eq(wb.sel), pd.eq(wb.dat_w)]
    addbad("wishbone_access_changed_or_withdrawn_before_acknowledge",
           pv & (~access | (wb.adr != pa) | (wb.we != pw) | (wb.sel != psel) | (wb.we & (wb.dat_w != pd))))
    sw = monitors.Sticky(env.wr_hit)
    top.submodules += sw
    cv = Signal()
    top.comb += cv.eq(env.rd_watched_beat & sw.out)
    covers["watched_byte_read_back_after_write"] = cv
    sl_ = monitors.Sticky(late)
    top.submodules += sl_
    cv3 = Signal()
    top.comb += cv3.eq(wb.ack & sl_.out)
    covers["access_acknowledged_after_a_write_whose_data_came_3_cycles_late"] = cv3
    b = bmc.Bench(name, top, inputs, consts={"WA": WA, "WL": WL}, free_init={"mem_byte": mem, "ref_byte": ref},
                  init_assume=[mem == ref], assumes=assumes, bads=bads, covers=covers,
                  info=dict(dw=dw, base=base, addressing=addressing, reverse_bridge=True))
    b.watch = {"cyc": wb.cyc, "stb": wb.stb, "we": wb.we, "adr": wb.adr, "sel": wb.sel, "dat_w": wb.dat_w, "ack": wb.ack, "dat_r": wb.dat_r,
               "n_v": port.cmd.valid, "n_r": port.cmd.ready, "n_we": port.cmd.we, "n_a": port.cmd.addr, "mem": mem, "ref": ref}
    return b


N2W_CONFIGS = {
    "native2wishbone_word_32": (dict(dw=32, base=0x40000000, addressing="word"), 16, 30, "qt"),
    "native2wishbone_byte_32": (dict(dw=32, base=0x40000000, addressing="byte"), 16, 30, "qt"),
    "native2wishbone_word_64_base0": (dict(dw=64, base=0, addressing="word"), 0, 30, "t"),
    "native2wishbone_byte_16_oddbase": (dict(dw=16, base=0x1236, addressing="byte"), 0, 30, "t"),
}

CONFIGS = {
    "abortw_equal_32": (dict(wb_dw=32, port_dw=32, write_aborts=True), 20, 26, "qt"),
    "abortw_wide_32_on_16": (dict(wb_dw=32, port_dw=16, write_aborts=True), 18, 24, "qt"),
    "abortw_narrow_16_on_32": (dict(wb_dw=16, port_dw=32, write_aborts=True), 20, 26, "qt"),
    "equal_32": (dict(wb_dw=32, port_dw=32), 20, 30, "qt"),
    "equal_32_queued_wdata": (dict(wb_dw=32, port_dw=32, queued_wdata=True), 18, 26, "qt"),
    "equal_32_base": (dict(wb_dw=32, port_dw=32, base=0x14), 18, 28, "qt"),
    "narrow_16_on_32": (dict(wb_dw=16, port_dw=32), 20, 30, "qt"),
    "narrow_8_on_32": (dict(wb_dw=8, port_dw=32), 0, 28, "t"),
    "wide_32_on_16": (dict(wb_dw=32, port_dw=16), 18, 26, "qt"),
}
BENCHES = {n: partial(wb_bench, n, **c[0]) for n, c in CONFIGS.items()}
BENCHES.update({n: partial(n2w_bench, n, **c[0]) for n, c in N2W_CONFIGS.items()})


def run(ctx):
    ctx.assume("Wishbone master: classic cycles and incrementing bursts (cti free), access held stable until ack or abort (cyc "
               "dropped at any cycle), addresses inside the window above base_address")
    ctx.assume("memory: in-order native stub with the real crossbar's pulse semantics, arbitrary stalls, latency >= 2, <= 2 queued")
    ctx.assume("'*_queued_wdata' benches: the native port queues write data like a port created with a width converter or a clock "
               "crossing (data beats accepted whenever its FIFO has room, paired with write commands in order)")
    ctx.assume("benches without the 'abortw_' prefix: the master aborts only read accesses (see the known finding on aborted writes)")
    ctx.assume("an aborted write makes the watched byte's expected value unknown until the next acknowledged write to it; flush "
               "visibility at the native side when cyc drops is not covered")
    ctx.assume("reverse bridge (native2wishbone_* benches): native command and write-data streams independent (data before, with or "
               "any time after its command, held until taken); the Wishbone slave acknowledges any "
               "presented access whenever it likes (combinational ack), stores one watched byte; equal widths (the bridge asserts ratio 1)")
    for n, (kw, kq, kt, tiers) in CONFIGS.items():
        if ctx.only and not ctx.only.search(n):
            continue
        if ctx.tier == "quick" and "q" in tiers:
            ctx.add(n, kq, timeout=1200, min_K=14, chunk=3, cover_required=False)
        elif ctx.tier == "thorough":
            ctx.add(n, kt, timeout=3000, min_K=kq or 16, chunk=3, cover_required=False)
    for n, (kw, kq, kt, tiers) in N2W_CONFIGS.items():
        if ctx.only and not ctx.only.search(n):
            continue
        if ctx.tier == "quick" and "q" in tiers:
            ctx.add(n, kq, timeout=600, min_K=12, chunk=4)
        elif ctx.tier == "thorough":
            ctx.add(n, kt, timeout=1200, min_K=16, chunk=4)
    ctx.run()
