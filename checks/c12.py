"""C12 -- DMA reader and writer stream exactly once, in order, without overrun."""
from functools import partial
import re
from migen import *
from litedram.common import LiteDRAMNativePort
from vlib import bmc, monitors, memstub

FILES = ["litedram/frontend/dma.py"]
LEVEL = "model_checking"
TECHNIQUE = ("bounded model checking (z3 QF_BV) of the elaborated real LiteDRAMDMAReader/Writer (LiteX SyncFIFOs lowered) "
             "between free stream endpoints and a nondeterministic in-order native-port stub with the real controller's contract; "
             "(and LiteDRAMAXIPort with real channel handshakes); one marked item followed by queue position; replay on migen.sim")
EXPLANATION = ("Reader: the stub answers each accepted read with a data word that encodes the command's address, after an "
               "arbitrary delay, as a single rdata.valid pulse that does not wait for rdata.ready (the real crossbar's behaviour); "
               "the k-th word on the source must carry the k-th accepted address with its end-of-stream mark, and a pulse that "
               "finds the DMA not ready is an overrun.  Writer: the k-th command and the k-th data strobe at the port must carry the "
               "address and data of the k-th sink beat; the stub takes write data by a pulse that does not wait for wdata.valid.")


class TagStub(Module):
    """in-order native-port stub: reads return the command's address as data; writes are checked by the monitor"""
    def __init__(self, port, depth=3, min_latency=2, read=True):
        self.inputs = {}
        self.bads = {}
        aw = len(port.cmd.addr)
        dw = len(port.rdata.data) if read else len(port.wdata.data)
        stall = Signal(name_override="stub_cmd_stall")
        go = Signal(name_override="stub_resp_go")
        self.inputs["stub_cmd_stall"] = stall
        self.inputs["stub_resp_go"] = go
        q_a = [Signal(aw) for _ in range(depth)]
        q_age = [Signal(max=min_latency + 1) for _ in range(depth)]
        level = Signal(max=depth + 1)
        self.comb += port.cmd.ready.eq((level != depth) & ~stall)
        accept = Signal()
        self.comb += accept.eq(port.cmd.valid & port.cmd.ready)
        resp = Signal()
        self.comb += resp.eq((level != 0) & (q_age[0] >= min_latency) & go)
        for i in range(depth):
            na = q_a[i + 1] if i + 1 < depth else Constant(0, aw)
            nage = q_age[i + 1] if i + 1 < depth else Constant(0, 1)
            inc = lambda x: Mux(x >= min_latency, x, x + 1)
            self.sync += [
                If(resp,
                    q_a[i].eq(na), q_age[i].eq(inc(nage)),
                    If(accept & (level == i + 1), q_a[i].eq(port.cmd.addr), q_age[i].eq(1 if min_latency else 0))
                ).Else(
                    q_age[i].eq(inc(q_age[i])),
                    If(accept & (level == i), q_a[i].eq(port.cmd.addr), q_age[i].eq(1 if min_latency else 0)))
            ]
        self.sync += level.eq(level + accept - resp)
        self.accept, self.resp, self.head_addr = accept, resp, q_a[0]
        if read:
            self.comb += [port.rdata.valid.eq(resp), port.rdata.data.eq(q_a[0])]
            b = Signal()
            self.comb += b.eq(resp & ~port.rdata.ready)
            self.bads["read_data_returned_while_dma_cannot_take_it(overrun)"] = b
            b2 = Signal()
            self.comb += b2.eq(accept & port.cmd.we)
            self.bads["reader_issues_write_command"] = b2
        else:
            self.comb += port.wdata.ready.eq(resp)
            b = Signal()
            self.comb += b.eq(resp & ~port.wdata.valid)
            self.bads["write_data_taken_but_none_offered"] = b
            b2 = Signal()
            self.comb += b2.eq(accept & ~port.cmd.we)
            self.bads["writer_issues_read_command"] = b2
        c = monitors.StreamContract(port.cmd.valid, port.cmd.ready, [port.cmd.we, port.cmd.addr])
        self.submodules += c
        b3 = Signal()
        self.comb += b3.eq(~c.ok)
        self.bads["dma_changes_or_drops_unaccepted_command"] = b3


class Marker(Module):
    """Follows ONE item (chosen by the solver through the free input `mark`) through an in-order pipeline:
    `push` = an item enters, `pop` = an item leaves.  `mine` is 1 in the cycle the marked item leaves."""
    def __init__(self, push, pop, depth_bits=5):
        self.mark = Signal(name_override="mark")
        self.marked = Signal()
        self.done = Signal()
        self.mark_now = Signal()
        self.mine = Signal()
        self.level = level = Signal(depth_bits)
        ahead = Signal(depth_bits)
        self.comb += [self.mark_now.eq(push & self.mark & ~self.marked),
                      self.mine.eq(self.marked & ~self.done & pop & (ahead == 0))]
        self.sync += [
            level.eq(level + push - pop),
            If(self.mark_now, self.marked.eq(1), ahead.eq(level - pop)),
            If(self.marked & ~self.done & pop, If(ahead == 0, self.done.eq(1)).Else(ahead.eq(ahead - 1))),
        ]
        self.underflow = Signal()
        self.comb += self.underflow.eq(pop & (level == 0))
        self.at_head = Signal()     # the marked item is the next one to leave (independent of `pop`)
        self.comb += self.at_head.eq(self.marked & ~self.done & (ahead == 0))


def _bad_adder(top, bads):
    def bad(n, e):
        s = Signal(name_override="bad_" + re.sub(r"[^A-Za-z0-9_]", "_", n))
        top.comb += s.eq(e)
        bads[n] = s
    return bad


def reader_bench(name, fifo_depth=2, buffered=False, aw=5, dw=8, bit=None, free_enable=False):
    from litedram.frontend.dma import LiteDRAMDMAReader
    port = LiteDRAMNativePort("read", aw, dw)

    class Top(Module):
        pass
    top = Top()
    top.submodules.dut = dut = LiteDRAMDMAReader(port, fifo_depth=fifo_depth, fifo_buffered=buffered)
    # memory side: in order, data word = free bits except bit B which tells whether this is the marked read
    B = Signal(max=dw, name_override="BITSEL")
    bit_ok = Signal()
    top.comb += bit_ok.eq((B == bit) if bit is not None else 1)
    stall = Signal(name_override="stub_cmd_stall")
    go = Signal(name_override="stub_resp_go")
    other = Signal(dw, name_override="stub_rdata_other")
    inputs = {"sink_valid": dut.sink.valid, "sink_address": dut.sink.address, "sink_last": dut.sink.last,
              "source_ready": dut.source.ready, "stub_cmd_stall": stall, "stub_resp_go": go, "stub_rdata_other": other}
    if free_enable:
        # the reader's enable input (1 after reset; the CSR front-end drives it) toggles freely: a disabled reader flushes its
        # FIFO on purpose, so only the no-overrun clause is asked in this variant
        inputs["enable"] = dut.enable
    sacc = Signal()
    beat = Signal()
    cacc = Signal()
    resp = Signal()
    top.comb += [sacc.eq(dut.sink.valid & dut.sink.ready), beat.eq(dut.source.valid & dut.source.ready),
                 cacc.eq(port.cmd.valid & port.cmd.ready)]
    # stub queue: only a level, an age and the position of the marked command are needed
    DEPTH, MINLAT = 3, 2
    m_mem = Marker(cacc, resp, depth_bits=3)      # marked command inside the memory
    m_all = Marker(sacc, beat, depth_bits=6)      # marked item from sink to source
    top.submodules += m_mem, m_all
    inputs["mark"] = m_all.mark
    top.comb += m_mem.mark.eq(m_all.mark)
    ages = [Signal(max=MINLAT + 1) for _ in range(DEPTH)]
    lvl = m_mem.level
    top.comb += [port.cmd.ready.eq((lvl != DEPTH) & ~stall), resp.eq((lvl != 0) & (ages[0] >= MINLAT) & go)]
    inc = lambda x: Mux(x >= MINLAT, x, x + 1)
    for i in range(DEPTH):
        nxt = ages[i + 1] if i + 1 < DEPTH else Constant(0, 1)
        top.sync += [If(resp, ages[i].eq(inc(nxt)), If(cacc & (lvl == i + 1), ages[i].eq(1))
                        ).Else(ages[i].eq(inc(ages[i])), If(cacc & (lvl == i), ages[i].eq(1)))]
    tagbit = Signal()
    top.comb += tagbit.eq(m_mem.mine)
    bits = [Mux(B == i, tagbit, other[i]) for i in range(dw)]
    top.comb += [port.rdata.valid.eq(resp), port.rdata.data.eq(Cat(*bits))]
    c = monitors.StreamContract(dut.sink.valid, dut.sink.ready, [dut.sink.address, dut.sink.last])
    cc = monitors.StreamContract(port.cmd.valid, port.cmd.ready, [port.cmd.we, port.cmd.addr])
    top.submodules += c, cc
    bads = {}
    bad = _bad_adder(top, bads)
    got = Array([dut.source.data[i] for i in range(dw)])[B]
    mlast = Signal()
    top.sync += If(m_all.mark_now, mlast.eq(dut.sink.last))
    bad("read_data_returned_while_dma_cannot_take_it(overrun)", resp & ~port.rdata.ready)
    bad("reader_issues_write_command", cacc & port.cmd.we)
    bad("dma_changes_or_drops_unaccepted_command", ~cc.ok)
    bad("output_word_without_accepted_address", m_all.underflow)
    bad("marked_address_word_not_delivered_at_its_position_in_order", m_all.mine & (got != 1))
    bad("word_of_marked_address_delivered_at_another_position", beat & ~m_all.mine & m_all.marked & (got == 1))
    bad("end_of_stream_mark_not_on_the_matching_word", m_all.mine & (dut.source.last != mlast))
    outstanding = Signal(max=fifo_depth + 8)
    top.sync += outstanding.eq(outstanding + cacc - beat)
    bad("reads_in_flight_plus_buffered_exceed_fifo_depth", outstanding > fifo_depth)
    bad("address_accepted_without_matching_port_command", sacc != cacc)
    bad("port_command_address_differs_from_sink_address", cacc & (port.cmd.addr != dut.sink.address))
    covers = {}
    s = monitors.Sticky(~dut.source.ready & dut.source.valid)
    top.submodules += s
    cv = Signal()
    top.comb += cv.eq(m_all.mine & s.out & (outstanding == fifo_depth))
    covers["marked_word_delivered_from_a_full_fifo_after_consumer_stall"] = cv
    b = bmc.Bench(name, top, inputs, consts={"BITSEL": B}, assumes={"sink_held_until_accepted": c.ok, "watched_bit": bit_ok}, bads=bads, covers=covers,
                  info=dict(fifo_depth=fifo_depth, buffered=buffered, bit=bit))
    b.watch = {"sink_v": dut.sink.valid, "sink_r": dut.sink.ready, "addr": dut.sink.address, "cmd_v": port.cmd.valid,
               "cmd_r": port.cmd.ready, "rv": port.rdata.valid, "rr": port.rdata.ready, "rd": port.rdata.data,
               "src_v": dut.source.valid, "src_r": dut.source.ready, "src_d": dut.source.data, "outst": outstanding}
    return b


def writer_bench(name, fifo_depth=2, buffered=False, aw=5, dw=8, bit=None):
    from litedram.frontend.dma import LiteDRAMDMAWriter
    port = LiteDRAMNativePort("write", aw, dw)

    class Top(Module):
        pass
    top = Top()
    top.submodules.dut = dut = LiteDRAMDMAWriter(port, fifo_depth=fifo_depth, fifo_buffered=buffered)
    B = Signal(max=dw, name_override="BITSEL")
    bit_ok = Signal()
    top.comb += bit_ok.eq((B == bit) if bit is not None else 1)
    stall = Signal(name_override="stub_cmd_stall")
    go = Signal(name_override="stub_resp_go")
    inputs = {"sink_valid": dut.sink.valid, "sink_address": dut.sink.address, "sink_data": dut.sink.data,
              "stub_cmd_stall": stall, "stub_resp_go": go}
    sacc = Signal()
    cacc = Signal()
    resp = Signal()
    top.comb += [sacc.eq(dut.sink.valid & dut.sink.ready), cacc.eq(port.cmd.valid & port.cmd.ready)]
    DEPTH, MINLAT = 3, 2
    m = Marker(cacc, resp, depth_bits=3)
    top.submodules += m
    inputs["mark"] = m.mark
    ages = [Signal(max=MINLAT + 1) for _ in range(DEPTH)]
    lvl = m.level
    top.comb += [port.cmd.ready.eq((lvl != DEPTH) & ~stall), resp.eq((lvl != 0) & (ages[0] >= MINLAT) & go),
                 port.wdata.ready.eq(resp)]
    inc = lambda x: Mux(x >= MINLAT, x, x + 1)
    for i in range(DEPTH):
        nxt = ages[i + 1] if i + 1 < DEPTH else Constant(0, 1)
        top.sync += [If(resp, ages[i].eq(inc(nxt)), If(cacc & (lvl == i + 1), ages[i].eq(1))
                        ).Else(ages[i].eq(inc(ages[i])), If(cacc & (lvl == i), ages[i].eq(1)))]
    c = monitors.StreamContract(dut.sink.valid, dut.sink.ready, [dut.sink.address, dut.sink.data])
    cc = monitors.StreamContract(port.cmd.valid, port.cmd.ready, [port.cmd.we, port.cmd.addr])
    top.submodules += c, cc
    # the watched bit of the sink data is 1 exactly in the beat the solver marks (and never again)
    inbit = Array([dut.sink.data[i] for i in range(dw)])[B]
    tag_ok = Signal()
    top.comb += tag_ok.eq(~dut.sink.valid | (inbit == (m.mark & ~m.marked)))
    markhold = Signal()
    pm = Signal()
    pv = Signal()
    top.sync += [pm.eq(m.mark), pv.eq(dut.sink.valid & ~dut.sink.ready)]
    top.comb += markhold.eq(~pv | (m.mark == pm))
    bads = {}
    bad = _bad_adder(top, bads)
    got = Array([port.wdata.data[i] for i in range(dw)])[B]
    bad("write_data_taken_but_none_offered", resp & ~port.wdata.valid)
    bad("writer_issues_read_command", cacc & ~port.cmd.we)
    bad("dma_changes_or_drops_unaccepted_command", ~cc.ok)
    bad("marked_pair_data_not_at_its_position_in_order", m.mine & (got != 1))
    bad("data_of_marked_pair_written_at_another_position", resp & ~m.mine & (got == 1))
    bad("write_byte_enables_not_all_set", resp & (port.wdata.we != 2**(dw // 8) - 1))
    bad("pair_accepted_without_matching_port_command", sacc != cacc)
    bad("port_command_address_differs_from_sink_address", cacc & (port.cmd.addr != dut.sink.address))
    covers = {}
    cv = Signal()
    top.comb += cv.eq(m.mine & (lvl >= 2))
    covers["marked_data_strobed_with_other_pairs_queued"] = cv
    b = bmc.Bench(name, top, inputs, consts={"BITSEL": B},
                  assumes={"sink_held_until_accepted": c.ok, "watched_bit_tags_the_marked_beat": tag_ok, "mark_held_with_beat": markhold,
                           "watched_bit": bit_ok},
                  bads=bads, covers=covers, info=dict(fifo_depth=fifo_depth, buffered=buffered))
    b.watch = {"sink_v": dut.sink.valid, "sink_r": dut.sink.ready, "addr": dut.sink.address, "data": dut.sink.data,
               "cmd_v": port.cmd.valid, "cmd_r": port.cmd.ready, "wv": port.wdata.valid, "wr": port.wdata.ready, "wd": port.wdata.data}
    return b


def axi_reader_bench(name, fifo_depth=2, buffered=False, aw=6, dw=16, bit=None):
    """LiteDRAMDMAReader on a LiteDRAMAXIPort (the is_axi branch): AR/R are real handshakes, R waits for ready"""
    from litedram.frontend.dma import LiteDRAMDMAReader
    from litedram.frontend.axi import LiteDRAMAXIPort
    port = LiteDRAMAXIPort(data_width=dw, address_width=aw, id_width=1)

    class Top(Module):
        pass
    top = Top()
    top.submodules.dut = dut = LiteDRAMDMAReader(port, fifo_depth=fifo_depth, fifo_buffered=buffered)
    ar, r = port.ar, port.r
    B = Signal(max=dw, name_override="BITSEL")
    bit_ok = Signal()
    top.comb += bit_ok.eq((B == bit) if bit is not None else 1)
    stall = Signal(name_override="stub_cmd_stall")
    go = Signal(name_override="stub_resp_go")
    other = Signal(dw, name_override="stub_rdata_other")
    inputs = {"sink_valid": dut.sink.valid, "sink_address": dut.sink.address, "sink_last": dut.sink.last,
              "source_ready": dut.source.ready, "stub_cmd_stall": stall, "stub_resp_go": go, "stub_rdata_other": other}
    sacc, beat, cacc, resp = Signal(), Signal(), Signal(), Signal()
    top.comb += [sacc.eq(dut.sink.valid & dut.sink.ready), beat.eq(dut.source.valid & dut.source.ready), cacc.eq(ar.valid & ar.ready)]
    DEPTH, MINLAT = 3, 2
    m_mem = Marker(cacc, resp, depth_bits=3)
    m_all = Marker(sacc, beat, depth_bits=6)
    top.submodules += m_mem, m_all
    inputs["mark"] = m_all.mark
    top.comb += m_mem.mark.eq(m_all.mark)
    ages = [Signal(max=MINLAT + 1) for _ in range(DEPTH)]
    lvl = m_mem.level
    hold = Signal()
    top.comb += [ar.ready.eq((lvl != DEPTH) & ~stall), r.valid.eq((lvl != 0) & (ages[0] >= MINLAT) & (go | hold)), resp.eq(r.valid & r.ready)]
    top.sync += hold.eq(r.valid & ~r.ready)
    inc = lambda x: Mux(x >= MINLAT, x, x + 1)
    for i in range(DEPTH):
        nxt = ages[i + 1] if i + 1 < DEPTH else Constant(0, 1)
        top.sync += [If(resp, ages[i].eq(inc(nxt)), If(cacc & (lvl == i + 1), ages[i].eq(1))
                        ).Else(ages[i].eq(inc(ages[i])), If(cacc & (lvl == i), ages[i].eq(1)))]
    tagbit = Signal()
    top.comb += tagbit.eq(m_mem.at_head)
    bits = [Mux(B == i, tagbit, other[i]) for i in range(dw)]
    top.comb += [r.data.eq(Cat(*bits)), r.last.eq(1)]
    c = monitors.StreamContract(dut.sink.valid, dut.sink.ready, [dut.sink.address, dut.sink.last])
    cc = monitors.StreamContract(ar.valid, ar.ready, [ar.addr, ar.size, ar.len, ar.burst])
    cr = monitors.StreamContract(r.valid, r.ready, [r.data])
    top.submodules += c, cc, cr
    bads = {}
    bad = _bad_adder(top, bads)
    got = Array([dut.source.data[i] for i in range(dw)])[B]
    mlast = Signal()
    top.sync += If(m_all.mark_now, mlast.eq(dut.sink.last))
    bad("dma_changes_or_drops_unaccepted_command", ~cc.ok)
    bad("output_word_without_accepted_address", m_all.underflow)
    bad("marked_address_word_not_delivered_at_its_position_in_order", m_all.mine & (got != 1))
    bad("word_of_marked_address_delivered_at_another_position", beat & ~m_all.mine & m_all.marked & (got == 1))
    bad("end_of_stream_mark_not_on_the_matching_word", m_all.mine & (dut.source.last != mlast))
    outstanding = Signal(max=fifo_depth + 8)
    top.sync += outstanding.eq(outstanding + cacc - beat)
    bad("reads_in_flight_plus_buffered_exceed_fifo_depth", outstanding > fifo_depth)
    bad("address_accepted_without_matching_port_command", sacc != cacc)
    bad("port_command_address_differs_from_sink_address", cacc & (ar.addr != dut.sink.address))
    bad("axi_read_is_not_one_full_width_beat", ar.valid & ((ar.size != log2_int(dw // 8)) | (ar.len != 0)))
    covers = {}
    st = monitors.Sticky(~dut.source.ready & dut.source.valid)
    top.submodules += st
    cv = Signal()
    top.comb += cv.eq(m_all.mine & st.out)
    covers["marked_word_delivered_after_consumer_stall"] = cv
    b = bmc.Bench(name, top, inputs, consts={"BITSEL": B},
                  assumes={"sink_held_until_accepted": c.ok, "watched_bit": bit_ok, "axi_r_payload_held_until_taken": cr.ok},
                  bads=bads, covers=covers, info=dict(fifo_depth=fifo_depth, buffered=buffered, bit=bit, port="AXI"))
    b.watch = {"sink_v": dut.sink.valid, "sink_r": dut.sink.ready, "addr": dut.sink.address, "ar_v": ar.valid, "ar_r": ar.ready,
               "rv": r.valid, "rr": r.ready, "rd": r.data, "src_v": dut.source.valid, "src_r": dut.source.ready, "src_d": dut.source.data,
               "outst": outstanding}
    return b


def axi_writer_bench(name, fifo_depth=2, buffered=False, aw=6, dw=16, bit=None):
    """LiteDRAMDMAWriter on a LiteDRAMAXIPort: AW and W are independent handshaked channels"""
    from litedram.frontend.dma import LiteDRAMDMAWriter
    from litedram.frontend.axi import LiteDRAMAXIPort
    port = LiteDRAMAXIPort(data_width=dw, address_width=aw, id_width=1)

    class Top(Module):
        pass
    top = Top()
    top.submodules.dut = dut = LiteDRAMDMAWriter(port, fifo_depth=fifo_depth, fifo_buffered=buffered)
    a, w = port.aw, port.w
    B = Signal(max=dw, name_override="BITSEL")
    bit_ok = Signal()
    top.comb += bit_ok.eq((B == bit) if bit is not None else 1)
    stall = Signal(name_override="stub_aw_stall")
    wgo = Signal(name_override="stub_w_ready")
    bv = Signal(name_override="stub_b_valid")
    inputs = {"sink_valid": dut.sink.valid, "sink_address": dut.sink.address, "sink_data": dut.sink.data,
              "stub_aw_stall": stall, "stub_w_ready": wgo, "stub_b_valid": bv}
    sacc, cacc, wacc = Signal(), Signal(), Signal()
    top.comb += [a.ready.eq(~stall), w.ready.eq(wgo), port.b.valid.eq(bv),
                 sacc.eq(dut.sink.valid & dut.sink.ready), cacc.eq(a.valid & a.ready), wacc.eq(w.valid & w.ready)]
    m = Marker(sacc, wacc, depth_bits=6)
    top.submodules += m
    inputs["mark"] = m.mark
    c = monitors.StreamContract(dut.sink.valid, dut.sink.ready, [dut.sink.address, dut.sink.data])
    cc = monitors.StreamContract(a.valid, a.ready, [a.addr, a.size, a.len, a.burst])
    cw = monitors.StreamContract(w.valid, w.ready, [w.data, w.strb])
    top.submodules += c, cc, cw
    inbit = Array([dut.sink.data[i] for i in range(dw)])[B]
    tag_ok = Signal()
    top.comb += tag_ok.eq(~dut.sink.valid | (inbit == (m.mark & ~m.marked)))
    markhold, pm, pv = Signal(), Signal(), Signal()
    top.sync += [pm.eq(m.mark), pv.eq(dut.sink.valid & ~dut.sink.ready)]
    top.comb += markhold.eq(~pv | (m.mark == pm))
    bads = {}
    bad = _bad_adder(top, bads)
    got = Array([w.data[i] for i in range(dw)])[B]
    bad("dma_changes_or_drops_unaccepted_command", ~cc.ok)
    bad("dma_changes_or_drops_untaken_write_data", ~cw.ok)
    bad("write_data_beat_without_accepted_pair", m.underflow)
    bad("marked_pair_data_not_at_its_position_in_order", m.mine & (got != 1))
    bad("data_of_marked_pair_written_at_another_position", wacc & ~m.mine & (got == 1))
    bad("write_strobes_not_all_set", w.valid & (w.strb != 2**(dw // 8) - 1))
    bad("pair_accepted_without_matching_port_command", sacc != cacc)
    bad("port_command_address_differs_from_sink_address", cacc & (a.addr != dut.sink.address))
    bad("axi_write_is_not_one_full_width_beat", a.valid & ((a.size != log2_int(dw // 8)) | (a.len != 0)))
    bad("write_response_not_accepted", port.b.valid & ~port.b.ready)
    covers = {}
    cv = Signal()
    top.comb += cv.eq(m.mine & (m.level >= 2))
    covers["marked_data_written_with_other_pairs_queued"] = cv
    b = bmc.Bench(name, top, inputs, consts={"BITSEL": B},
                  assumes={"sink_held_until_accepted": c.ok, "watched_bit_tags_the_marked_beat": tag_ok, "mark_held_with_beat": markhold,
                           "watched_bit": bit_ok},
                  bads=bads, covers=covers, info=dict(fifo_depth=fifo_depth, buffered=buffered, port="AXI"))
    b.watch = {"sink_v": dut.sink.valid, "sink_r": dut.sink.ready, "addr": dut.sink.address, "data": dut.sink.data,
               "aw_v": a.valid, "aw_r": a.ready, "wv": w.valid, "wr": w.ready, "wd": w.data}
    return b


CONFIGS = {
    "reader_d2": (reader_bench, dict(fifo_depth=2), 18, 32, "qt"),
    "reader_d2_buffered": (reader_bench, dict(fifo_depth=2, buffered=True), 16, 28, "qt"),
    "reader_d1_buffered": (reader_bench, dict(fifo_depth=1, buffered=True), 14, 24, "qt"),
    "reader_d1": (reader_bench, dict(fifo_depth=1), 0, 24, "t"),
    "writer_d1_buffered": (writer_bench, dict(fifo_depth=1, buffered=True), 0, 24, "t"),
    "enabletoggle_reader_d2": (reader_bench, dict(fifo_depth=2, free_enable=True), 18, 28, "qt"),
    "reader_d4_bit0": (reader_bench, dict(fifo_depth=4, bit=0), 17, 30, "qt"),
    "reader_d4_bit7": (reader_bench, dict(fifo_depth=4, bit=7), 0, 30, "t"),
    "reader_d4_buffered_bit3": (reader_bench, dict(fifo_depth=4, buffered=True, bit=3), 17, 30, "qt"),
    "reader_d4": (reader_bench, dict(fifo_depth=4), 0, 30, "t"),
    "reader_d4_buffered": (reader_bench, dict(fifo_depth=4, buffered=True), 0, 30, "t"),
    "writer_d2": (writer_bench, dict(fifo_depth=2), 20, 32, "qt"),
    "writer_d4_buffered": (writer_bench, dict(fifo_depth=4, buffered=True), 17, 32, "qt"),
    "axi_reader_d2": (axi_reader_bench, dict(fifo_depth=2), 16, 28, "qt"),
    "axi_writer_d2": (axi_writer_bench, dict(fifo_depth=2), 16, 28, "qt"),
    "axi_reader_d4_buffered": (axi_reader_bench, dict(fifo_depth=4, buffered=True), 0, 28, "t"),
    "axi_writer_d4_buffered": (axi_writer_bench, dict(fifo_depth=4, buffered=True), 0, 28, "t"),
    "reader_d16": (reader_bench, dict(fifo_depth=16), 0, 40, "t"),
    "reader_d3": (reader_bench, dict(fifo_depth=3), 0, 32, "t"),
    "writer_d16": (writer_bench, dict(fifo_depth=16), 0, 36, "t"),
    "writer_d3": (writer_bench, dict(fifo_depth=3), 0, 32, "t"),
}
BENCHES = {n: partial(c[0], n, **c[1]) for n, c in CONFIGS.items()}


def run(ctx):
    ctx.assume("stream producers hold valid/payload until accepted; source.ready, stub stalls and response delays (>= 2 cycles) free")
    ctx.assume("native-port stub: in order, <= 3 commands queued; one item (chosen by the solver) is followed by queue position; "
               "its data carry a 1 at a symbolic bit position, all other data bits are free (data independence: the DMA only moves words)")
    ctx.assume("'enabletoggle_*' bench: the reader's enable input is free every cycle; only the no-overrun clause is asked there")
    ctx.assume("axi_* benches: LiteDRAMAXIPort with real AR/R and AW/W/B handshakes (R and W wait for ready; R payload held by the "
               "slave); single-beat full-width accesses are required of the DMA.  The CSR front-ends add_csr() are not covered")
    for n, (fn, kw, kq, kt, tiers) in CONFIGS.items():
        if ctx.only and not ctx.only.search(n):
            continue
        if n.startswith("enabletoggle"):
            ctx.add(n, kq if ctx.tier == "quick" else kt, timeout=900, cover_required=False,
                    bads=["read_data_returned_while_dma_cannot_take_it(overrun)"])
            continue
        if ctx.tier == "quick" and "q" in tiers:
            ctx.add(n, kq, timeout=1800)
        elif ctx.tier == "thorough":
            ctx.add(n, kt, timeout=3000, min_K=(kq or 18) - 2, chunk=4, cover_required="_d1" not in n)
    ctx.run()
