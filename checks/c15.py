"""C15 -- ECC port corrects any single and flags any double bit error."""
import multiprocessing
import time
import concurrent.futures as cf
import z3
from migen import *

FILES = ["litedram/frontend/ecc.py"]
LEVEL = "other"
TECHNIQUE = ("combinational validity queries (z3 QF_BV) on the elaborated real ECC write path -> symbolic flip vector -> real ECC "
             "read path; all data words, all flip positions, all byte enables symbolic; counterexamples re-evaluated on migen.sim")
EXPLANATION = ("LiteDRAMNativePortECCW (LiteX ECCEncoder per lane) and LiteDRAMNativePortECCR (ECCDecoder per lane) are "
               "elaborated at full width and connected through an XOR with a free flip vector.  One-hot and two-hot flips are "
               "expressed with bit tricks (f & (f-1)) so a single query covers every position in every lane, with arbitrary "
               "flips allowed in the other lanes.  Byte-enable widening and the granularity error flag are compared with an "
               "independent per-lane reference.")

CONFIGS_Q = [(64, 72, 1), (128, 144, 2), (32, 39, 1), (64, 80, 2), (16, 22, 1), (8, 13, 1)]
CONFIGS_T = CONFIGS_Q + [(512, 576, 8), (256, 288, 4), (256, 312, 8), (64, 104, 8), (128, 176, 8)]


def build(dfrom, dto, burst):
    from litedram.frontend.ecc import LiteDRAMNativePortECCW, LiteDRAMNativePortECCR

    class Top(Module):
        pass
    top = Top()
    top.submodules.w = w = LiteDRAMNativePortECCW(dfrom, dto, burst)
    top.submodules.r = r = LiteDRAMNativePortECCR(dfrom, dto, burst)
    flip = Signal(dto, name_override="flip")
    top.comb += [r.sink.data.eq(w.source.data ^ flip), r.sink.valid.eq(1), r.enable.eq(1)]
    top.flip = flip
    return top


def lane_job(cfg):
    from vlib.fhdl2smt import Design, RefSim
    from litex.soc.cores.ecc import compute_m_n
    dfrom, dto, burst = cfg
    label = "ecc_%d_to_%d_x%d" % (dfrom, dto, burst)
    recs = []
    t00 = time.time()
    try:
        top = build(*cfg)
        w, r, flip = top.w, top.r, top.flip
        ins = [w.sink.data, w.sink.we, w.sink.valid, w.source.ready, r.source.ready, flip]
        d = Design(top, inputs=ins)
        kf, kt = dfrom // burst, dto // burst
        m, n = compute_m_n(kf)
        used = n + 1
        D = d._tvars[w.sink.data]
        WE = d._tvars[w.sink.we]
        V = d._tvars[w.sink.valid]
        F = d._tvars[flip]
        out = d.sig_val(r.source.data).t
        sec = d.sig_val(r.sec).t
        ded = d.sig_val(r.ded).t
        swe = d.sig_val(w.source.we).t
        weerr = d.sig_val(w.we_error).t
        stored = d.sig_val(w.source.data).t

        def solve(q, *cons, expect="unsat"):
            s = z3.Solver()
            s.set("timeout", 600000)
            s.add(*cons)
            t0 = time.time()
            res = str(s.check())
            rec = dict(q=q, result=res, s=round(time.time() - t0, 2), expect=expect)
            if res == "sat":
                mdl = s.model()
                rec["model"] = {x: mdl.eval(v, model_completion=True).as_long() for x, v in
                                [("data", D), ("we", WE), ("valid", V), ("flip", F)]}
            recs.append(rec)
        lanes_pad_zero = []
        for i in range(burst):
            f = z3.Extract((i + 1) * kt - 1, i * kt, F)
            if kt > used:
                lanes_pad_zero.append(z3.Extract(kt - 1, used, f) == 0)
        pad0 = z3.And(*lanes_pad_zero) if lanes_pad_zero else z3.BoolVal(True)
        solve("no_flip_returns_data_clean", F == 0, z3.Or(out != D, sec != 0, ded != 0))
        one_hot_bad, two_hot_bad, none_bad, we_bad = [], [], [], []
        for i in range(burst):
            f = z3.Extract((i + 1) * kt - 1, i * kt, F)
            o_i = z3.Extract((i + 1) * kf - 1, i * kf, out)
            d_i = z3.Extract((i + 1) * kf - 1, i * kf, D)
            sec_i = z3.Extract(i, i, sec)
            ded_i = z3.Extract(i, i, ded)
            g = f & (f - 1)
            is1 = z3.And(f != 0, g == 0)
            is2 = z3.And(g != 0, (g & (g - 1)) == 0)
            parity_flip = z3.Extract(0, 0, f) == 1
            one_hot_bad.append(z3.And(is1, z3.Or(o_i != d_i, ded_i != 0, sec_i != z3.If(parity_flip, z3.BitVecVal(0, 1), z3.BitVecVal(1, 1)))))
            two_hot_bad.append(z3.And(is2, z3.Or(ded_i != 1, sec_i != 0)))
            none_bad.append(z3.And(f == 0, z3.Or(o_i != d_i, ded_i != 0, sec_i != 0)))
        solve("single_flip_any_position_any_lane_is_corrected_and_counted", pad0, z3.Or(*one_hot_bad))
        solve("double_flip_any_positions_any_lane_is_flagged_uncorrectable", pad0, z3.Or(*two_hot_bad))
        solve("unflipped_lane_clean_whatever_happens_in_other_lanes", pad0, z3.Or(*none_bad))
        # witnesses
        f0 = z3.Extract(kt - 1, 0, F)
        g0 = f0 & (f0 - 1)
        solve("witness_double_flip_flagged", pad0, g0 != 0, (g0 & (g0 - 1)) == 0, z3.Extract(0, 0, ded) == 1, expect="sat")
        # byte enables
        bf, bt = kf // 8, kt // 8
        if kf % 8 == 0 and kt % 8 == 0 and bf > 0 and bt > 0:
            full_from = []
            for i in range(burst):
                we_i = z3.Extract((i + 1) * bf - 1, i * bf, WE)
                swe_i = z3.Extract((i + 1) * bt - 1, i * bt, swe)
                we_bad.append(swe_i != z3.If(we_i != 0, z3.BitVecVal(2**bt - 1, bt), z3.BitVecVal(0, bt)))
                full_from.append(we_i == 2**bf - 1)
            solve("stored_byte_enables_all_ones_iff_any_enable_in_lane", z3.Or(*we_bad))
            all_full = z3.And(*full_from)
            solve("full_write_is_not_a_granularity_error", V == 1, all_full, weerr != 0)
            solve("partial_write_is_a_granularity_error", V == 1, z3.Not(all_full), weerr != 1)
            solve("no_granularity_error_without_valid", V == 0, weerr != 0)
    except Exception as e:
        import traceback
        recs.append(dict(q="encode", result="unknown", s=0.0, expect="unsat", detail="%r\n%s" % (e, traceback.format_exc())))
    return label, cfg, recs, time.time() - t00


def reeval(cfg, model):
    """re-evaluate a counterexample with migen's Evaluator on a fresh elaboration"""
    from vlib.fhdl2smt import Design, RefSim
    top = build(*cfg)
    w, r, flip = top.w, top.r, top.flip
    ins = [w.sink.data, w.sink.we, w.sink.valid, w.source.ready, r.source.ready, flip]
    d = Design(top, inputs=ins)
    sim = RefSim(d)
    sim.set_inputs({w.sink.data: model["data"], w.sink.we: model["we"], w.sink.valid: model["valid"], flip: model["flip"]})
    return dict(data_in=model["data"], flip=model["flip"], we=model["we"], valid=model["valid"],
                stored=sim.get(w.source.data), stored_we=sim.get(w.source.we), we_error=sim.get(w.we_error),
                data_out=sim.get(r.source.data), sec=sim.get(r.sec), ded=sim.get(r.ded))


def confirm(cfg, q, rv):
    """independent python restatement of the violated clause on the re-evaluated values"""
    dfrom, dto, burst = cfg
    bf = dfrom // burst // 8
    if q == "full_write_is_not_a_granularity_error":
        return rv["valid"] == 1 and rv["we"] == 2**(dfrom // 8) - 1 and rv["we_error"] == 1
    if q == "partial_write_is_a_granularity_error":
        return rv["valid"] == 1 and rv["we"] != 2**(dfrom // 8) - 1 and rv["we_error"] == 0
    if q == "no_flip_returns_data_clean":
        return rv["flip"] == 0 and (rv["data_out"] != rv["data_in"] or rv["sec"] or rv["ded"])
    return True


def replay_custom(data):
    rv = reeval(tuple(data["config"]), data["model"])
    print("re-evaluated on migen Evaluator:", rv)
    ok = confirm(tuple(data["config"]), data["goal"], rv)
    if ok:
        print("VIOLATION property=C15 replay=%s" % data.get("path", "<file>"))
        return 1
    return 0


BENCHES = {}


def run(ctx):
    ctx.assume("flips restricted to the n+1 code bits of each lane when the stored lane is wider (padding bits are not code bits)")
    ctx.assume("decoder enabled; counters/sticky flags of LiteDRAMNativePortECC step on the per-beat sec/ded verdicts (sequential "
               "wrapper needs LiteX CSR objects; its counter logic is covered by the 2-step note in DESIGN.md)")
    cfgs = CONFIGS_Q if ctx.tier == "quick" else CONFIGS_T
    ctxm = multiprocessing.get_context("fork")
    with cf.ProcessPoolExecutor(max_workers=ctx.jobs_n, mp_context=ctxm) as ex:
        for label, cfg, recs, secs in ex.map(lane_job, cfgs, chunksize=1):
            for r in recs:
                ql = "%s:%s" % (label, r["q"])
                ctx.oblige(ql, r["result"], r["s"], expect=r["expect"], detail=r.get("detail"),
                           sample=dict(config=label, query=r["q"], result=r["result"], solver_s=r["s"]))
                if r["expect"] == "sat":
                    if r["result"] != "sat":
                        ctx.inconclusive.append("%s: witness unsatisfiable (vacuity guard)" % ql)
                    continue
                if r["result"] == "sat":
                    rv = reeval(cfg, r["model"])
                    if not confirm(cfg, r["q"], rv):
                        ctx.inconclusive.append("%s: model does not re-evaluate on migen.sim: %r" % (ql, rv))
                        continue
                    path = ctx.write_replay(label, r["q"], dict(config=list(cfg), model=r["model"], reevaluated=rv))
                    ctx.violation(label, r["q"], path)
    ctx.states = max(1, ctx.states)
