"""Environment models (Migen) for frontends that sit between a user-side bus and a LiteDRAM native port.

NativeMemStub  : nondeterministic, in-order memory with the *real controller's* native-port contract:
                 cmd.ready arbitrary; each accepted write gets exactly one wdata.ready pulse, each accepted read
                 exactly one rdata.valid pulse, in command order, after an arbitrary delay >= min_latency; like the
                 real crossbar the pulses do not wait for wdata.valid / rdata.ready (a pulse that meets an invalid
                 wdata or a non-ready rdata is a lost beat and is flagged).
                 Memory contents: one watched byte (symbolic word address + lane) is tracked exactly, everything
                 else is arbitrary (fresh input) -- sound because the watched byte is itself a solver variable.
NativeUserEnv  : master contract + byte reference + expected-read queue for a native user port.
"""
from migen import *

from .monitors import any_, all_, StreamContract


def byte_of(data, lane, nbytes):
    """byte `lane` (Signal or int) of a data word"""
    if isinstance(lane, int):
        return data[8 * lane:8 * lane + 8]
    return Array([data[8 * i:8 * i + 8] for i in range(nbytes)])[lane]


def bit_of(vec, idx, n):
    if isinstance(idx, int):
        return vec[idx]
    return Array([vec[i] for i in range(n)])[idx]


class NativeMemStub(Module):
    def __init__(self, port, watch_addr, watch_lane, mem, depth=4, min_latency=2, name="stub", with_write=True,
                 with_read=True, queued_wdata=False):
        """port: the DUT's controller-side native port.  watch_addr/watch_lane: Signals (symbolic constants).
        mem: 8-bit Signal register owned by the caller (free initial value = initial memory contents)."""
        nbytes = len(port.wdata.data) // 8 if with_write else len(port.rdata.data) // 8
        self.inputs = {}
        self.bads = {}
        self.covers = {}

        def inp(n, w=1):
            s = Signal(w, name_override="%s_%s" % (name, n))
            self.inputs["%s_%s" % (name, n)] = s
            return s
        stall = inp("cmd_stall")
        go = inp("resp_go")
        rfree = inp("rdata_other", len(port.rdata.data)) if with_read else None

        # command queue -------------------------------------------------------------------------
        q_we = [Signal() for _ in range(depth)]
        q_w = [Signal() for _ in range(depth)]       # watched word
        q_age = [Signal(max=min_latency + 1) for _ in range(depth)]
        level = Signal(max=depth + 1)
        full = Signal()
        self.comb += full.eq(level == depth)
        self.comb += port.cmd.ready.eq(~full & ~stall)
        accept = Signal()
        self.comb += accept.eq(port.cmd.valid & port.cmd.ready)
        head_valid = Signal()
        self.comb += head_valid.eq(level != 0)
        eligible = Signal()
        self.comb += eligible.eq(head_valid & (q_age[0] >= min_latency))
        pop = Signal()
        resp_w = Signal()
        resp_r = Signal()
        wq_have = Signal(reset=1)      # queued_wdata: a write-data beat is waiting in the port's data FIFO
        self.comb += [
            resp_w.eq(eligible & q_we[0] & go & wq_have),
            resp_r.eq(eligible & ~q_we[0] & go),
            pop.eq(resp_w | resp_r),
        ]
        # shift queue
        for i in range(depth):
            nxt_we = q_we[i + 1] if i + 1 < depth else Constant(0, 1)
            nxt_w = q_w[i + 1] if i + 1 < depth else Constant(0, 1)
            nxt_age = q_age[i + 1] if i + 1 < depth else Constant(0, 1)
            age_inc = Mux(q_age[i] >= min_latency, q_age[i], q_age[i] + 1)
            nage_inc = Mux(nxt_age >= min_latency, nxt_age, nxt_age + 1)
            self.sync += [
                If(pop,
                    q_we[i].eq(nxt_we), q_w[i].eq(nxt_w), q_age[i].eq(nage_inc),
                    If(accept & (level == i + 1),
                        q_we[i].eq(port.cmd.we), q_w[i].eq(port.cmd.addr == watch_addr), q_age[i].eq(1 if min_latency else 0))
                ).Else(
                    q_age[i].eq(age_inc),
                    If(accept & (level == i),
                        q_we[i].eq(port.cmd.we), q_w[i].eq(port.cmd.addr == watch_addr), q_age[i].eq(1 if min_latency else 0))
                )
            ]
        self.sync += level.eq(level + accept - pop)
        # responses ----------------------------------------------------------------------------
        if with_write and queued_wdata:
            # a port that queues write data (up-converter or CDC in front of the crossbar): a data beat is accepted whenever the
            # data FIFO has room (free input), independently of commands, and is paired with the write commands in order
            QW = 2
            wgo = inp("wdata_fifo_ready")
            wq_b = [Signal(8) for _ in range(QW)]
            wq_e = [Signal() for _ in range(QW)]
            wq_lvl = Signal(max=QW + 1)
            whs = Signal()
            self.comb += [port.wdata.ready.eq(wgo & (wq_lvl != QW)), whs.eq(port.wdata.valid & port.wdata.ready),
                          wq_have.eq(wq_lvl != 0)]
            inb, ine = byte_of(port.wdata.data, watch_lane, nbytes), bit_of(port.wdata.we, watch_lane, nbytes)
            for i in range(QW):
                nb_ = wq_b[i + 1] if i + 1 < QW else Constant(0, 8)
                ne_ = wq_e[i + 1] if i + 1 < QW else Constant(0, 1)
                self.sync += [If(resp_w, wq_b[i].eq(nb_), wq_e[i].eq(ne_), If(whs & (wq_lvl == i + 1), wq_b[i].eq(inb), wq_e[i].eq(ine))
                                 ).Elif(whs & (wq_lvl == i), wq_b[i].eq(inb), wq_e[i].eq(ine))]
            self.sync += wq_lvl.eq(wq_lvl + whs - resp_w)
            self.sync += If(resp_w & q_w[0] & wq_e[0], mem.eq(wq_b[0]))
            # beats accepted so far never outnumber the write commands accepted so far
            owed = Signal(4)       # write commands accepted minus data beats accepted
            wacc = Signal()
            self.comb += wacc.eq(accept & port.cmd.we)
            self.sync += owed.eq(owed + wacc - whs)
            b = Signal(name_override="bad_%s_wdata_beat_without_command" % name)
            self.comb += b.eq(whs & (owed == 0) & ~wacc)
            self.bads["write_data_beat_handed_to_the_port_without_a_write_command"] = b
        elif with_write:
            self.comb += port.wdata.ready.eq(resp_w)
            b = Signal(name_override="bad_%s_wdata_not_valid_at_strobe" % name)
            self.comb += b.eq(resp_w & ~port.wdata.valid)
            self.bads["controller_takes_write_data_but_frontend_offers_none"] = b
            self.sync += If(resp_w & q_w[0] & bit_of(port.wdata.we, watch_lane, nbytes),
                            mem.eq(byte_of(port.wdata.data, watch_lane, nbytes)))
        else:
            b = Signal()
            self.comb += b.eq(accept & port.cmd.we)
            self.bads["write_command_on_read_only_port"] = b
        if with_read:
            self.comb += port.rdata.valid.eq(resp_r)
            lanes = []
            for i in range(nbytes):
                lanes.append(Mux(q_w[0] & (watch_lane == i), mem, rfree[8 * i:8 * i + 8]))
            self.comb += port.rdata.data.eq(Cat(*lanes))
            b = Signal(name_override="bad_%s_rdata_dropped" % name)
            self.comb += b.eq(resp_r & ~port.rdata.ready)
            self.bads["controller_returns_read_data_but_frontend_not_ready"] = b
        else:
            b = Signal()
            self.comb += b.eq(accept & ~port.cmd.we)
            self.bads["read_command_on_write_only_port"] = b
        self.accept, self.resp_w, self.resp_r, self.level = accept, resp_w, resp_r, level
        # the DUT must hold its command until accepted
        c = StreamContract(port.cmd.valid, port.cmd.ready, [port.cmd.we, port.cmd.addr])
        self.submodules += c
        b = Signal()
        self.comb += b.eq(~c.ok)
        self.bads["frontend_changes_or_drops_unaccepted_command"] = b


class NativeUserEnv(Module):
    """User-side master contract (assumptions), reference byte and checks for a native user port.

    watch_addr / watch_lane: the user-side word address and byte lane of the watched byte (Signals, symbolic
    constants).  ref: 8-bit register owned by the caller with the same free initial value as the stub's mem."""
    def __init__(self, port, watch_addr, watch_lane, ref, qdepth=4, name="user", with_write=True, with_read=True,
                 flush_input=True, last_input=True, ascending_bits=0):
        nbytes = len(port.wdata.data) // 8 if with_write else len(port.rdata.data) // 8
        self.inputs = {}
        self.assumes = {}
        self.bads = {}
        self.covers = {}
        for n, s in [("cmd_valid", port.cmd.valid), ("cmd_we", port.cmd.we), ("cmd_addr", port.cmd.addr)]:
            self.inputs["%s_%s" % (name, n)] = s
        if last_input:
            self.inputs["%s_cmd_last" % name] = port.cmd.last
        if flush_input:
            self.inputs["%s_flush" % name] = port.flush
        if with_write:
            for n, s in [("wdata_valid", port.wdata.valid), ("wdata_data", port.wdata.data), ("wdata_we", port.wdata.we)]:
                self.inputs["%s_%s" % (name, n)] = s
        if with_read:
            self.comb += port.rdata.ready.eq(1)

        def asm(n, expr):
            s = Signal(name_override="asm_%s_%s" % (name, n))
            self.comb += s.eq(expr)
            self.assumes["%s_%s" % (name, n)] = s

        def bad(n, expr):
            s = Signal(name_override="bad_%s_%s" % (name, n))
            self.comb += s.eq(expr)
            self.bads[n] = s
        acc = Signal()
        self.comb += acc.eq(port.cmd.valid & port.cmd.ready)
        pay = [port.cmd.we, port.cmd.addr] + ([port.cmd.last] if last_input else [])
        c = StreamContract(port.cmd.valid, port.cmd.ready, pay)
        self.submodules += c
        asm("cmd_held_until_accepted", c.ok)
        if ascending_bits:
            # consecutive commands of the same direction that fall into the same wide word use strictly ascending addresses
            # (the order in which an up-converter returns/merges chunks); any other order is the subject of the general benches
            pa = Signal(len(port.cmd.addr))
            pw = Signal()
            pv = Signal()
            self.sync += If(acc, pa.eq(port.cmd.addr), pw.eq(port.cmd.we), pv.eq(1))
            same_word = (pa[ascending_bits:] == port.cmd.addr[ascending_bits:]) & (pw == port.cmd.we) & pv
            asm("ascending_addresses_inside_a_wide_word",
                ~(port.cmd.valid & same_word) | (port.cmd.addr[:ascending_bits] > pa[:ascending_bits]))
        if not with_write:
            asm("read_only", ~(port.cmd.valid & port.cmd.we))
        if not with_read:
            asm("write_only", ~port.cmd.valid | port.cmd.we)
        # ---- write data contract: data offered no later than its command, held until taken, one at a time ----
        if with_write:
            present_w = Signal()
            dt = Signal()
            need_data = Signal()   # write command accepted, its data not yet taken
            data_done = Signal()   # data of the still pending (unaccepted) write command already taken
            self.comb += [present_w.eq(port.cmd.valid & port.cmd.we), dt.eq(port.wdata.valid & port.wdata.ready)]
            must = Signal()
            self.comb += must.eq((present_w & ~data_done) | need_data)
            asm("wdata_offered_with_its_command", ~must | port.wdata.valid)
            asm("no_unsolicited_wdata", ~port.wdata.valid | must)
            asm("no_new_write_while_data_pending", ~(need_data & present_w))
            cw = StreamContract(port.wdata.valid, port.wdata.ready, [port.wdata.data, port.wdata.we])
            self.submodules += cw
            asm("wdata_held_until_taken", cw.ok)
            self.sync += [
                need_data.eq((need_data & ~dt) | (acc & port.cmd.we & ~data_done & ~dt)),
                data_done.eq((data_done | (dt & present_w & ~need_data)) & ~acc),
            ]
            lat_d = Signal(len(port.wdata.data))
            lat_w = Signal(len(port.wdata.we))
            self.sync += If(port.wdata.valid, lat_d.eq(port.wdata.data), lat_w.eq(port.wdata.we))
            eff_d = Signal(len(port.wdata.data))
            eff_w = Signal(len(port.wdata.we))
            self.comb += [eff_d.eq(Mux(data_done, lat_d, port.wdata.data)), eff_w.eq(Mux(data_done, lat_w, port.wdata.we))]
            wr_hit = Signal()
            self.comb += wr_hit.eq(acc & port.cmd.we & (port.cmd.addr == watch_addr) & bit_of(eff_w, watch_lane, nbytes))
            self.sync += If(wr_hit, ref.eq(byte_of(eff_d, watch_lane, nbytes)))
            self.wr_hit = wr_hit
            self.need_data = need_data
        # ---- expected read data queue -------------------------------------------------------------------
        if with_read:
            e_w = [Signal() for _ in range(qdepth)]
            e_v = [Signal(8) for _ in range(qdepth)]
            lvl = Signal(max=qdepth + 1)
            racc = Signal()
            beat = Signal()
            self.comb += [racc.eq(acc & ~port.cmd.we), beat.eq(port.rdata.valid & port.rdata.ready)]
            asm("outstanding_reads_bounded", ~(port.cmd.valid & ~port.cmd.we) | (lvl < qdepth))
            for i in range(qdepth):
                nw = e_w[i + 1] if i + 1 < qdepth else Constant(0, 1)
                nv = e_v[i + 1] if i + 1 < qdepth else Constant(0, 8)
                self.sync += [
                    If(beat,
                        e_w[i].eq(nw), e_v[i].eq(nv),
                        If(racc & (lvl == i + 1), e_w[i].eq(port.cmd.addr == watch_addr), e_v[i].eq(ref))
                    ).Elif(racc & (lvl == i),
                        e_w[i].eq(port.cmd.addr == watch_addr), e_v[i].eq(ref))
                ]
            self.sync += lvl.eq(lvl + racc - beat)
            bad("read_data_without_read_command", beat & (lvl == 0))
            got = byte_of(port.rdata.data, watch_lane, nbytes)
            bad("read_returns_wrong_byte", beat & (lvl != 0) & e_w[0] & (got != e_v[0]))
            self.rd_watched_beat = Signal()
            self.comb += self.rd_watched_beat.eq(beat & (lvl != 0) & e_w[0])
            self.lvl = lvl
        self.acc = acc
