"""C07 -- width-converted ports behave like one memory."""
from functools import partial
from migen import *
from litedram.common import LiteDRAMNativePort
from litedram.frontend.adapter import LiteDRAMNativePortConverter
from vlib import bmc, memstub, monitors

FILES = ["litedram/frontend/adapter.py", "litedram/core/crossbar.py"]
LEVEL = "model_checking"
TECHNIQUE = ("bounded model checking (z3 QF_BV) of the elaborated real LiteDRAMNativePortConverter between a symbolic "
             "user master and a nondeterministic in-order memory stub; watched byte is a solver variable; replay on migen.sim")
EXPLANATION = ("The real up/down converter (with LiteX StrideConverter/SyncFIFO lowered to FHDL) sits between a free user "
               "master (only the master contract is assumed) and a memory stub with the real controller's native-port "
               "contract and arbitrary stalls/latencies.  One byte of memory (symbolic address and lane) is tracked exactly on "
               "both sides; every user read beat of that byte must return the byte most recently written in command order.")


def conv_bench(name, user_dw, native_dw, mode="both", reverse=False, aw_native=4, stub_depth=3, qdepth=3, lane=None,
               others_zero=False, ascending=False):
    ratio_down = user_dw // native_dw if user_dw > native_dw else 0
    ratio_up = native_dw // user_dw if native_dw > user_dw else 0
    if ratio_down:
        aw_user = aw_native - log2_int(ratio_down)
    else:
        aw_user = aw_native + log2_int(ratio_up)
    pu = LiteDRAMNativePort(mode, aw_user, user_dw)
    pn = LiteDRAMNativePort(mode, aw_native, native_dw)

    class Top(Module):
        pass
    top = Top()
    top.submodules.dut = LiteDRAMNativePortConverter(pu, pn, reverse)
    ub, nb = user_dw // 8, native_dw // 8
    UA = Signal(aw_user, name_override="UA")
    UL = Signal(max=max(ub, 2), name_override="UL")
    if lane is not None:
        ULc = UL
        UL = lane
    mem = Signal(8, name_override="mem_byte")
    ref = Signal(8, name_override="ref_byte")
    wa = Signal(aw_native)
    wl = Signal(max=max(nb, 2))
    if ratio_down:
        r = ratio_down
        if lane is None:
            chunk = UL[log2_int(nb):] if nb > 1 else UL
            lo = UL[:log2_int(nb)] if nb > 1 else 0
        else:
            chunk = lane // nb
            lo = lane % nb
        k = (r - 1 - chunk) if reverse else chunk
        top.comb += [wa.eq(UA * r + k), wl.eq(lo)]
    else:
        r = ratio_up
        chunk = UA[:log2_int(r)]
        k = (r - 1 - chunk) if reverse else chunk
        top.comb += [wa.eq(UA[log2_int(r):]), wl.eq(k * ub + UL)]
    with_w = mode in ("both", "write")
    with_r = mode in ("both", "read")
    stub = memstub.NativeMemStub(pn, wa, wl, mem, depth=stub_depth, with_write=with_w, with_read=with_r)
    env = memstub.NativeUserEnv(pu, UA, UL, ref, qdepth=qdepth, with_write=with_w, with_read=with_r,
                                ascending_bits=log2_int(ratio_up) if (ascending and ratio_up) else 0)
    top.submodules.stub, top.submodules.env = stub, env
    inputs = dict(env.inputs)
    inputs.update(stub.inputs)
    bads = dict(env.bads)
    bads.update(stub.bads)
    covers = {}
    if with_w and with_r:
        s = monitors.Sticky(env.wr_hit)
        top.submodules += s
        c = Signal()
        top.comb += c.eq(env.rd_watched_beat & s.out)
        covers["watched_byte_read_back_after_write"] = c
    elif with_r:
        covers["watched_byte_read"] = env.rd_watched_beat
    else:
        s2 = Signal()
        top.comb += s2.eq(stub.resp_w)
        covers["write_data_strobed"] = s2
    assumes = dict(env.assumes)
    consts = {"UA": UA}
    if lane is None:
        ul_ok = Signal()
        top.comb += ul_ok.eq(UL < ub)
        assumes["lane_in_range"] = ul_ok
        consts["UL"] = UL
    if others_zero and lane is not None:
        oz = Signal()
        terms = []
        if with_w:
            for i in range(ub):
                if i != lane:
                    terms.append(pu.wdata.data[8 * i:8 * i + 8] == 0)
        if with_r:
            terms.append(stub.inputs["stub_rdata_other"] == 0)
        top.comb += oz.eq(monitors.all_(terms))
        assumes["data_outside_watched_lane_is_zero(data_independence)"] = oz
    if with_w:
        fi, ia = {"mem_byte": mem, "ref_byte": ref}, [mem == ref]
    else:
        # read-only port: the watched byte never changes, memory contents and reference are one symbolic constant
        fi, ia = {}, []
        consts.update({"mem_byte": mem, "ref_byte": ref})
        same = Signal()
        top.comb += same.eq(mem == ref)
        assumes["memory_byte_equals_reference_byte"] = same
    b = bmc.Bench(name, top, inputs, consts=consts, free_init=fi,
                  init_assume=ia, assumes=assumes, bads=bads, covers=covers,
                  info=dict(user_dw=user_dw, native_dw=native_dw, mode=mode, reverse=reverse))
    b.watch = {"u_cmd_valid": pu.cmd.valid, "u_cmd_ready": pu.cmd.ready, "u_we": pu.cmd.we, "u_addr": pu.cmd.addr,
               "u_last": pu.cmd.last, "u_flush": pu.flush,
               "n_cmd_valid": pn.cmd.valid, "n_cmd_ready": pn.cmd.ready, "n_we": pn.cmd.we, "n_addr": pn.cmd.addr,
               "mem": mem, "ref": ref}
    if with_w:
        b.watch.update({"u_wvalid": pu.wdata.valid, "u_wready": pu.wdata.ready, "u_wdata": pu.wdata.data, "u_wwe": pu.wdata.we,
                        "n_wvalid": pn.wdata.valid, "n_wready": pn.wdata.ready, "n_wdata": pn.wdata.data, "n_wwe": pn.wdata.we})
    if with_r:
        b.watch.update({"u_rvalid": pu.rdata.valid, "u_rdata": pu.rdata.data, "n_rvalid": pn.rdata.valid, "n_rdata": pn.rdata.data})
    return b


CONFIGS = {
    # name: (kwargs, Kq, Kt, tiers)
    "down_2to1": (dict(user_dw=32, native_dw=16), 17, 22, "qt"),
    "down_4to1_reverse": (dict(user_dw=32, native_dw=8, reverse=True), 16, 24, "qt"),
    "asc_up_1to2": (dict(user_dw=8, native_dw=16, ascending=True), 20, 24, "qt"),
    "asc_up_1to4": (dict(user_dw=8, native_dw=32, ascending=True), 18, 24, "qt"),
    "anyorder_up_1to2": (dict(user_dw=8, native_dw=16), 14, 22, "qt"),
    "asc_up_1to2_read": (dict(user_dw=8, native_dw=16, mode="read", ascending=True), 0, 22, "t"),
    "asc_up_1to2_write": (dict(user_dw=8, native_dw=16, mode="write", ascending=True), 0, 22, "t"),
    "asc_up_1to2_reverse": (dict(user_dw=16, native_dw=32, reverse=True, ascending=True), 0, 22, "t"),
    "down_8to1": (dict(user_dw=64, native_dw=8), 0, 22, "t"),
    "down_2to1_read": (dict(user_dw=16, native_dw=8, mode="read"), 0, 22, "t"),
    "anyorder_up_1to4": (dict(user_dw=8, native_dw=32), 0, 24, "t"),
}
BENCHES = {n: partial(conv_bench, n, **c[0]) for n, c in CONFIGS.items()}


def getport_address_space(ctx):
    """crossbar.get_port(data_width=...): the converted port must be a byte-addressed view of exactly the same memory as the
    controller-width port -- no user address beyond the memory (it would alias after truncation in the converter), none missing"""
    import time
    import z3
    from litedram.core.crossbar import LiteDRAMCrossbar
    from litedram.core.controller import ControllerSettings
    from litedram.common import LiteDRAMInterface, GeomSettings
    from vlib import cfg
    for native_dw, geom in ((32, dict(bankbits=2, rowbits=5, colbits=4)), (128, dict(bankbits=3, rowbits=14, colbits=10))):
        for user_dw in (8, 16, 32, 64, 128, 256, 512):
            if user_dw == native_dw:
                continue
            for mode in ("both", "read", "write"):
                if mode == "both" and user_dw < native_dw and False:
                    continue
                label = "getport_%dto%d_%s" % (user_dw, native_dw, mode)
                if ctx.only and not ctx.only.search(label):
                    continue
                t0 = time.time()
                cs = ControllerSettings(cmd_buffer_depth=4)
                cs.phy = cfg.phy_settings(dfi_databits=native_dw, read_latency=1, write_latency=0)
                cs.geom = GeomSettings(**geom)
                cs.timing = cfg.timing_settings()
                iface = LiteDRAMInterface(0, cs)
                xbar = LiteDRAMCrossbar(iface)
                try:
                    pn = xbar.get_port(mode=mode)
                    pu = xbar.get_port(mode=mode, data_width=user_dw)
                except Exception as e:
                    ctx.oblige(label + ":get_port_elaborates", "sat", time.time() - t0, detail=repr(e))
                    path = ctx.write_replay(label, "get_port_elaborates", dict(user_dw=user_dw, native_dw=native_dw, mode=mode, error=repr(e)))
                    ctx.violation(label, "get_port_elaborates", path)
                    continue
                awn, awu = len(pn.cmd.addr), len(pu.cmd.addr)
                ub, nb = len(pu.wdata.data if mode != "read" else pu.rdata.data) // 8, len(pn.wdata.data if mode != "read" else pn.rdata.data) // 8
                A, L, X = z3.BitVec("user_addr", awu), z3.Int("lane"), z3.Int("byte_addr")
                mem_bytes = (1 << awn) * nb
                ba = z3.BV2Int(A) * ub + L
                for q, cons in (("no_user_address_beyond_the_memory", [L >= 0, L < ub, ba >= mem_bytes]),
                                ("every_memory_byte_has_a_user_address", [X >= 0, X < mem_bytes, X >= (1 << awu) * ub])):
                    sv = z3.Solver()
                    sv.add(*cons)
                    r = str(sv.check())
                    ctx.oblige("%s:%s" % (label, q), r, time.time() - t0,
                               detail="user aw=%d x %d bytes, controller aw=%d x %d bytes" % (awu, ub, awn, nb))
                    if r == "sat":
                        mdl = sv.model()
                        # replay: the widths come from the real elaborated ports, the model is a concrete out-of-range address
                        path = ctx.write_replay(label, q, dict(user_dw=user_dw, native_dw=native_dw, mode=mode, geom=geom,
                                                               model={str(d): str(mdl[d]) for d in mdl.decls()},
                                                               user_aw=awu, native_aw=awn))
                        ctx.violation(label, q, path)
                ctx.states += 1
    ctx.extra["functions_encoded_getport"] = ["litedram.core.crossbar.LiteDRAMCrossbar.get_port (port widths of the elaborated ports)"]


def replay_custom(data):
    import z3
    from litedram.core.crossbar import LiteDRAMCrossbar
    from litedram.core.controller import ControllerSettings
    from litedram.common import LiteDRAMInterface, GeomSettings
    from vlib import cfg
    cs = ControllerSettings(cmd_buffer_depth=4)
    cs.phy = cfg.phy_settings(dfi_databits=data["native_dw"], read_latency=1, write_latency=0)
    cs.geom = GeomSettings(**data["geom"])
    cs.timing = cfg.timing_settings()
    xbar = LiteDRAMCrossbar(LiteDRAMInterface(0, cs))
    pn = xbar.get_port(mode=data["mode"])
    pu = xbar.get_port(mode=data["mode"], data_width=data["user_dw"])
    tot_n = (1 << len(pn.cmd.addr)) * pn.data_width // 8
    tot_u = (1 << len(pu.cmd.addr)) * pu.data_width // 8
    print("controller-width port spans %d bytes, converted port spans %d bytes" % (tot_n, tot_u))
    if tot_n != tot_u:
        print("VIOLATION property=C07 replay=%s" % data.get("path", "<file>"))
        return 1
    return 0


def run(ctx):
    getport_address_space(ctx)
    ctx.assume("user master: command held until accepted; write data offered together with its command and held until "
               "taken, one write-data beat in flight at a time; read data always accepted; <= 3 reads outstanding")
    ctx.assume("controller side: in-order memory with the real crossbar's contract (wdata.ready / rdata.valid are single "
               "pulses that do not wait for valid/ready), arbitrary stalls, response latency >= 2 cycles, <= 3 commands queued")
    ctx.assume("'asc_' benches: consecutive same-direction commands inside one wide word use strictly ascending addresses; "
               "'anyorder_' benches drop that restriction (known finding on the up-converter)")
    ctx.assume("crossbar.get_port(data_width=...): address-space obligations on the real elaborated ports (widths 8..512 bits on "
               "32- and 128-bit controllers, all modes); its converter is the one the benches elaborate; the command path of a "
               "converted port through the real crossbar arbitration is exercised by C08's get_port bench")
    for n, (c, kq, kt, tiers) in CONFIGS.items():
        if ctx.only and not ctx.only.search(n):
            continue
        if ctx.tier == "quick" and "q" in tiers:
            ctx.add(n, kq, timeout=600, min_K=kq - 3, first_chunk=10, chunk=1, cover_required=False)
        elif ctx.tier == "thorough":
            ctx.add(n, kt, timeout=3300, min_K=(kq or 16) - 3, first_chunk=10, chunk=1, cover_required=False)
    ctx.run()
