"""C07 -- width-converted ports behave like one memory."""
from functools import partial
from migen import *
from litedram.common import LiteDRAMNativePort
from litedram.frontend.adapter import LiteDRAMNativePortConverter
from vlib import bmc, memstub, monitors

FILES = ["litedram/frontend/adapter.py", "litedram/core/crossbar.py"]
LEVEL = "model_checking"
TECHNIQUE = ("bounded model checking (z3 QF_BV) of the elaborated real LiteDRAMNativePortConverter between a symbolic "
             "user master and a nondeterministic in-order memory stub; watched byte is a solver variable; replay on migen.sim")
EXPLANATION = ("The real up/down converter (with LiteX StrideConverter/SyncFIFO lowered to FHDL) sits between a free user "
               "master (only the master contract is assumed) and a memory stub with the real controller's native-port "
               "contract and arbitrary stalls/latencies.  One byte of memory (symbolic address and lane) is tracked exactly on "
               "both sides; every user read beat of that byte must return the byte most recently written in command order.")


def conv_bench(name, user_dw, native_dw, mode="both", reverse=False, aw_native=4, stub_depth=3, qdepth=3, lane=None,
               others_zero=False, ascending=False):
    ratio_down = user_dw // native_dw if user_dw > native_dw else 0
    ratio_up = native_dw // user_dw if native_dw > user_dw else 0
    if ratio_down:
        aw_user = aw_native - log2_int(ratio_down)
    else:
        aw_user = aw_native + log2_int(ratio_up)
    pu = LiteDRAMNativePort(mode, aw_user, user_dw)
    pn = LiteDRAMNativePort(mode, aw_native, native_dw)

    class Top(Module):
        pass
    top = Top()
    top.submodules.dut = LiteDRAMNativePortConverter(pu, pn, reverse)
    ub, nb = user_dw // 8, native_dw // 8
    UA = Signal(aw_user, name_override="UA")
    UL = Signal(max=max(ub, 2), name_override="UL")
    if lane is not None:
        ULc = UL
        UL = lane
    mem = Signal(8, name_override="mem_byte")
    ref = Signal(8, name_override="ref_byte")
    wa = Signal(aw_native)
    wl = Signal(max=max(nb, 2))
    if ratio_down:
        r = ratio_down
        if lane is None:
            chunk = UL[log2_int(nb):] if nb > 1 else UL
            lo = UL[:log2_int(nb)] if nb > 1 else 0
        else:
            chunk = lane // nb
            lo = lane % nb
        k = (r - 1 - chunk) if reverse else chunk
        top.comb += [wa.eq(UA * r + k), wl.eq(lo)]
    else:
        r = ratio_up
        chunk = UA[:log2_int(r)]
        k = (r - 1 - chunk) if reverse else chunk
        top.comb += [wa.eq(UA[log2_int(r):]), wl.eq(k * ub + UL)]
    with_w = mode in ("both", "write")
    with_r = mode in ("both", "read")
    stub = memstub.NativeMemStub(pn, wa, wl, mem, depth=stub_depth, with_write=with_w, with_read=with_r)
    env = memstub.NativeUserEnv(pu, UA, UL, ref, qdepth=qdepth, with_write=with_w, with_read=with_r,
                                ascending_bits=log2_int(ratio_up) if (ascending and ratio_up) else 0)
    top.submodules.stub, top.submodules.env = stub, env
    inputs = dict(env.inputs)
    inputs.update(stub.inputs)
    bads = dict(env.bads)
    bads.update(stub.bads)
    covers = {}
    if with_w and with_r:
        s = monitors.Sticky(env.wr_hit)
        top.submodules += s
        c = Signal()
        top.comb += c.eq(env.rd_watched_beat & s.out)
        covers["watched_byte_read_back_after_write"] = c
    elif with_r:
        covers["watched_byte_read"] = env.rd_watched_beat
    else:
        s2 = Signal()
        top.comb += s2.eq(stub.resp_w)
        covers["write_data_strobed"] = s2
    assumes = dict(env.assumes)
    consts = {"UA": UA}
    if lane is None:
        ul_ok = Signal()
        top.comb += ul_ok.eq(UL < ub)
        assumes["lane_in_range"] = ul_ok
        consts["UL"] = UL
    if others_zero and lane is not None:
        oz = Signal()
        terms = []
        if with_w:
            for i in range(ub):
                if i != lane:
                    terms.append(pu.wdata.data[8 * i:8 * i + 8] == 0)
        if with_r:
            terms.append(stub.inputs["stub_rdata_other"] == 0)
        top.comb += oz.eq(monitors.all_(terms))
        assumes["data_outside_watched_lane_is_zero(data_independence)"] = oz
    b = bmc.Bench(name, top, inputs, consts=consts, free_init={"mem_byte": mem, "ref_byte": ref},
                  init_assume=[mem == ref], assumes=assumes, bads=bads, covers=covers,
                  info=dict(user_dw=user_dw, native_dw=native_dw, mode=mode, reverse=reverse))
    b.watch = {"u_cmd_valid": pu.cmd.valid, "u_cmd_ready": pu.cmd.ready, "u_we": pu.cmd.we, "u_addr": pu.cmd.addr,
               "u_last": pu.cmd.last, "u_flush": pu.flush,
               "n_cmd_valid": pn.cmd.valid, "n_cmd_ready": pn.cmd.ready, "n_we": pn.cmd.we, "n_addr": pn.cmd.addr,
               "mem": mem, "ref": ref}
    if with_w:
        b.watch.update({"u_wvalid": pu.wdata.valid, "u_wready": pu.wdata.ready, "u_wdata": pu.wdata.data, "u_wwe": pu.wdata.we,
                        "n_wvalid": pn.wdata.valid, "n_wready": pn.wdata.ready, "n_wdata": pn.wdata.data, "n_wwe": pn.wdata.we})
    if with_r:
        b.watch.update({"u_rvalid": pu.rdata.valid, "u_rdata": pu.rdata.data, "n_rvalid": pn.rdata.valid, "n_rdata": pn.rdata.data})
    return b


CONFIGS = {
    # name: (kwargs, Kq, Kt, tiers)
    "down_2to1": (dict(user_dw=32, native_dw=16), 17, 22, "qt"),
    "down_4to1_reverse": (dict(user_dw=32, native_dw=8, reverse=True), 16, 24, "qt"),
    "asc_up_1to2": (dict(user_dw=8, native_dw=16, ascending=True), 20, 24, "qt"),
    "asc_up_1to4": (dict(user_dw=8, native_dw=32, ascending=True), 18, 24, "qt"),
    "anyorder_up_1to2": (dict(user_dw=8, native_dw=16), 14, 22, "qt"),
    "asc_up_1to2_read": (dict(user_dw=8, native_dw=16, mode="read", ascending=True), 0, 22, "t"),
    "asc_up_1to2_write": (dict(user_dw=8, native_dw=16, mode="write", ascending=True), 0, 22, "t"),
    "asc_up_1to2_reverse": (dict(user_dw=16, native_dw=32, reverse=True, ascending=True), 0, 22, "t"),
    "down_8to1": (dict(user_dw=64, native_dw=8), 0, 22, "t"),
    "down_2to1_read": (dict(user_dw=16, native_dw=8, mode="read"), 0, 22, "t"),
    "anyorder_up_1to4": (dict(user_dw=8, native_dw=32), 0, 24, "t"),
}
BENCHES = {n: partial(conv_bench, n, **c[0]) for n, c in CONFIGS.items()}


def run(ctx):
    ctx.assume("user master: command held until accepted; write data offered together with its command and held until "
               "taken, one write-data beat in flight at a time; read data always accepted; <= 3 reads outstanding")
    ctx.assume("controller side: in-order memory with the real crossbar's contract (wdata.ready / rdata.valid are single "
               "pulses that do not wait for valid/ready), arbitrary stalls, response latency >= 2 cycles, <= 3 commands queued")
    ctx.assume("'asc_' benches: consecutive same-direction commands inside one wide word use strictly ascending addresses; "
               "'anyorder_' benches drop that restriction (known finding on the up-converter)")
    ctx.assume("address shift of crossbar.get_port(data_width=...) is covered by C06-style width bookkeeping, not here")
    for n, (c, kq, kt, tiers) in CONFIGS.items():
        if ctx.only and not ctx.only.search(n):
            continue
        if ctx.tier == "quick" and "q" in tiers:
            ctx.add(n, kq, timeout=600, min_K=kq - 3, first_chunk=10, chunk=1, cover_required=False)
        elif ctx.tier == "thorough":
            ctx.add(n, kt, timeout=3300, min_K=(kq or 16) - 3, first_chunk=10, chunk=1, cover_required=False)
    ctx.run()
