"""pysym -- symbolic execution of the real Python arithmetic of litedram.modules / litedram.init.

The real functions are executed (not re-modelled) with proxy values:
  SymReal : a rational function P(f)/Q(f) of ONE symbolic real (the controller clock frequency f) with exact
            rational coefficients -- enough for everything modules.py computes before it rounds;
  SymInt  : a z3 integer expression (results of ceil/max/... on symbolic values).
The names the code under test resolves at call time (`ceil`, `max`, `min`, `int`, `round` in the module's globals)
are shadowed by symbolic-aware versions while a symbolic run is active and restored afterwards.

Floating point: the code computes in IEEE doubles.  Each value that reaches ceil() is the exact real value
perturbed by a fresh error term |e| <= REL_EPS*|x| (REL_EPS = 8 ulp), so a verdict holds for the doubles too.
"""
import math
from fractions import Fraction
import contextlib

import z3

REL_EPS = Fraction(8, 2**53)


class Ctx:
    def __init__(self, fname="f"):
        self.f = z3.Real(fname)
        self.constraints = []
        self.n = 0
        self.ceil_log = []

    def fresh_int(self, base="n"):
        self.n += 1
        return z3.Int("%s%d" % (base, self.n))

    def fresh_real(self, base="e"):
        self.n += 1
        return z3.Real("%s%d" % (base, self.n))


_CTX = None


def frac(x):
    if isinstance(x, Fraction):
        return x
    if isinstance(x, int):
        return Fraction(x)
    if isinstance(x, float):
        return Fraction(repr(x))
    raise TypeError(x)


def _padd(a, b):
    n = max(len(a), len(b))
    return [(a[i] if i < len(a) else 0) + (b[i] if i < len(b) else 0) for i in range(n)]


def _pmul(a, b):
    r = [Fraction(0)] * (len(a) + len(b) - 1)
    for i, x in enumerate(a):
        for j, y in enumerate(b):
            r[i + j] += x * y
    return r


def _ptrim(a):
    a = list(a)
    while len(a) > 1 and a[-1] == 0:
        a.pop()
    return a


class SymReal:
    """P(f)/Q(f), coefficient lists low degree first"""
    def __init__(self, p, q=None):
        self.p = _ptrim([frac(x) for x in p])
        self.q = _ptrim([frac(x) for x in (q or [1])])
        if all(x == 0 for x in self.p):
            self.p, self.q = [Fraction(0)], [Fraction(1)]
        # cancel common powers of f
        while len(self.p) > 1 and len(self.q) > 1 and self.p[0] == 0 and self.q[0] == 0:
            self.p, self.q = self.p[1:], self.q[1:]

    @staticmethod
    def lift(x):
        if isinstance(x, SymReal):
            return x
        if isinstance(x, SymInt):
            raise TypeError("SymInt used in real arithmetic")
        return SymReal([frac(x)])

    def __add__(self, o):
        o = SymReal.lift(o)
        return SymReal(_padd(_pmul(self.p, o.q), _pmul(o.p, self.q)), _pmul(self.q, o.q))
    __radd__ = __add__

    def __neg__(self):
        return SymReal([-x for x in self.p], self.q)

    def __sub__(self, o):
        return self + (-SymReal.lift(o))

    def __rsub__(self, o):
        return SymReal.lift(o) + (-self)

    def __mul__(self, o):
        o = SymReal.lift(o)
        return SymReal(_pmul(self.p, o.p), _pmul(self.q, o.q))
    __rmul__ = __mul__

    def __truediv__(self, o):
        o = SymReal.lift(o)
        return SymReal(_pmul(self.p, o.q), _pmul(self.q, o.p))

    def __rtruediv__(self, o):
        return SymReal.lift(o) / self

    def is_const(self):
        return len(self.p) == 1 and len(self.q) == 1

    def const(self):
        return self.p[0] / self.q[0]

    def z3(self, f):
        """z3 real term; only constant denominators (polynomial numerator of degree <= 1) are accepted: linear"""
        if len(self.q) != 1:
            raise ValueError("non-linear symbolic value (denominator depends on f): %r / %r" % (self.p, self.q))
        if len(self.p) > 2:
            raise ValueError("non-linear symbolic value (degree %d)" % (len(self.p) - 1))
        c = self.q[0]
        t = z3.RealVal(str(self.p[0] / c))
        if len(self.p) > 1:
            t = t + z3.RealVal(str(self.p[1] / c)) * f
        return t

    def __ceil__(self):
        return sym_ceil(self)

    def __floor__(self):
        return sym_floor(self)

    def __float__(self):
        raise TypeError("symbolic value concretised (float())")

    def __repr__(self):
        return "SymReal(%s / %s)" % (self.p, self.q)


class SymInt:
    def __init__(self, t):
        self.t = t

    @staticmethod
    def term(x):
        if isinstance(x, SymInt):
            return x.t
        if isinstance(x, bool):
            return z3.IntVal(int(x))
        if isinstance(x, int):
            return z3.IntVal(x)
        raise TypeError("cannot mix %r with SymInt" % (x,))

    def __add__(self, o):
        return SymInt(self.t + SymInt.term(o))
    __radd__ = __add__

    def __sub__(self, o):
        return SymInt(self.t - SymInt.term(o))

    def __rsub__(self, o):
        return SymInt(SymInt.term(o) - self.t)

    def __mul__(self, o):
        if isinstance(o, SymInt):
            raise TypeError("symbolic * symbolic")
        return SymInt(self.t * SymInt.term(o))
    __rmul__ = __mul__

    def __index__(self):
        raise TypeError("symbolic integer concretised (__index__)")

    def __int__(self):
        raise TypeError("symbolic integer concretised (int())")

    def __bool__(self):
        raise TypeError("symbolic integer used as a Python bool")

    def __lt__(self, o):
        raise TypeError("comparison of a symbolic integer in Python control flow")
    __gt__ = __le__ = __ge__ = __lt__

    def __repr__(self):
        return "SymInt(%s)" % self.t


def sym_ceil(x):
    if isinstance(x, SymInt):
        return x
    if not isinstance(x, SymReal):
        return math.ceil(x)
    if x.is_const():
        # the real code would have computed this in doubles; constants are exact rationals here and only arise from table
        # entries divided by constants
        c = x.const()
        return -((-c.numerator) // c.denominator)
    ctx = _CTX
    xt = x.z3(ctx.f)
    e = ctx.fresh_real("fe")
    n = ctx.fresh_int("ceil")
    eps = z3.RealVal(str(REL_EPS))
    # doubles: value actually fed to ceil is xt + e with |e| <= eps*|xt| ; xt >= 0 in all uses (asserted)
    ctx.constraints += [xt >= 0, e <= eps * xt, e >= -eps * xt,
                        z3.ToReal(n) >= xt + e, z3.ToReal(n) - 1 < xt + e]
    ctx.ceil_log.append((n, x))
    return SymInt(n)


def sym_floor(x):
    if isinstance(x, SymInt):
        return x
    if not isinstance(x, SymReal):
        return math.floor(x)
    if x.is_const():
        c = x.const()
        return c.numerator // c.denominator
    ctx = _CTX
    xt = x.z3(ctx.f)
    e = ctx.fresh_real("fe")
    n = ctx.fresh_int("floor")
    eps = z3.RealVal(str(REL_EPS))
    ctx.constraints += [xt >= 0, e <= eps * xt, e >= -eps * xt,
                        z3.ToReal(n) <= xt + e, z3.ToReal(n) + 1 > xt + e]
    ctx.ceil_log.append((n, x))
    return SymInt(n)


def sym_max(*args, **kw):
    if len(args) == 1 and not kw:
        args = tuple(args[0])
    if not any(isinstance(a, SymInt) for a in args):
        if any(isinstance(a, SymReal) for a in args):
            raise TypeError("max() over symbolic reals not supported")
        return max(*args, **kw)
    r = SymInt.term(args[0])
    for a in args[1:]:
        t = SymInt.term(a)
        r = z3.If(t > r, t, r)
    return SymInt(r)


@contextlib.contextmanager
def symbolic_run(module, fname="f", names=("ceil", "max", "floor")):
    """shadow ceil/max in `module`'s globals; yields the Ctx"""
    global _CTX
    saved = {}
    missing = object()
    ctx = Ctx(fname)
    prev = _CTX
    _CTX = ctx
    repl = {"ceil": sym_ceil, "max": sym_max, "floor": sym_floor}
    try:
        for n in names:
            saved[n] = module.__dict__.get(n, missing)
            module.__dict__[n] = repl[n]
        yield ctx
    finally:
        for n, v in saved.items():
            if v is missing:
                del module.__dict__[n]
            else:
                module.__dict__[n] = v
        _CTX = prev
