"""Property monitors written in Migen.  They observe the real DUT's signals; their 1-bit outputs are
used as `bads`, `assumes` and `covers` of a Bench, and they are simulated by the real Migen
evaluator during replay (the very same monitor object decides a replayed violation)."""
from functools import reduce
from operator import or_, and_

from migen import *


def any_(xs):
    xs = list(xs)
    return reduce(or_, xs) if xs else Constant(0, 1)


def all_(xs):
    xs = list(xs)
    return reduce(and_, xs) if xs else Constant(1, 1)


class StreamContract(Module):
    """Master-side contract of a valid/ready stream: once valid is raised it stays raised with a
    stable payload until the transfer (valid & ready).  `ok` = 1 while the contract is respected."""
    def __init__(self, valid, ready, payload):
        self.ok = Signal()
        pv = Signal()
        pl = [Signal(len(p)) for p in payload]
        self.sync += [pv.eq(valid & ~ready)] + [q.eq(p) for q, p in zip(pl, payload)]
        same = all_([q == p for q, p in zip(pl, payload)])
        self.comb += self.ok.eq(~pv | (valid & same))


class Sticky(Module):
    """out = 1 from the first frame in which `cond` is 1 (inclusive) on."""
    def __init__(self, cond):
        self.out = Signal()
        r = Signal()
        self.sync += If(cond, r.eq(1))
        self.comb += self.out.eq(r | cond)


class DFIMonitor(Module):
    """Reference DRAM command-bus monitor, fed by the DFI phases only.

    Time unit = DRAM clock = one DFI phase slot; phases of one controller cycle are processed in
    order.  Bank state (open/closed, open row) is reconstructed from ACT / PRE / PREA / CAS with A10.
    Timing requirements `req` are in DRAM clocks (None = not checked).

    req keys: tRCD tRP tRAS tRC tRRD tFAW tCCD tWR_total(WR->PRE incl. CWL+burst) tWTR_total(WR->RD incl.
              CWL+burst) tRFC tZQCS
    """
    def __init__(self, dfi, nranks, bankbits, rowbits, rdphase, wrphase, req=None, a10_autoprecharge=True):
        nph = len(dfi.phases)
        nb = 2**bankbits
        req = dict(req or {})
        maxreq = max([v for v in req.values() if v] + [1])
        maxreq += max(req.get("tRP") or 0, 0)  # sums tRAS+tRP, tWR_total+tRP are compared too
        AW = bits_for(maxreq + nph + 1)
        SAT = 2**AW - 1
        self.req = req
        bads = self.bads = {}
        covers = self.covers = {}

        def bad(name):
            s = Signal(name_override="bad_" + name)
            bads[name] = s
            return s
        v_act_open = bad("act_to_open_bank")
        v_cas_closed = bad("cas_to_closed_bank")
        v_ref_open = bad("ref_or_zqcs_with_open_bank")
        v_rd_phase = bad("rd_wr_on_wrong_phase_or_data_enable_mismatch")
        v_multi_rank = bad("chip_select_not_single_rank")
        v_ref_all_ranks = bad("refresh_not_to_all_ranks")
        v_mrs = bad("unexpected_mrs_command")
        tnames = ["tRCD", "tRP", "tRP_ap_rd", "tRAS", "tRAS_prea", "tRAS_ap", "tRC", "tRRD", "tFAW", "tCCD", "tWR", "tWR_prea",
                  "tWR_ap", "tWTR", "tRFC", "tRP_ref", "tZQCS"]
        vt = {n: bad(n) for n in tnames}
        acc = {k: [] for k in bads}

        # ---- decode -------------------------------------------------------------------------
        dec = []
        for p, ph in enumerate(dfi.phases):
            allones = 2**nranks - 1
            sel_any = Signal()
            self.comb += sel_any.eq(ph.cs_n != allones)
            d = dict(
                sel=[ph.cs_n[r] == 0 for r in range(nranks)], sel_any=sel_any,
                act=Signal(), pre=Signal(), rd=Signal(), wr=Signal(), ref=Signal(), mrs=Signal(), zqc=Signal(),
                a10=ph.address[10], bank=ph.bank, row=ph.address[:rowbits], ph=ph)
            self.comb += [
                d["act"].eq(sel_any & ~ph.ras_n & ph.cas_n & ph.we_n),
                d["pre"].eq(sel_any & ~ph.ras_n & ph.cas_n & ~ph.we_n),
                d["rd"].eq(sel_any & ph.ras_n & ~ph.cas_n & ph.we_n),
                d["wr"].eq(sel_any & ph.ras_n & ~ph.cas_n & ~ph.we_n),
                d["ref"].eq(sel_any & ~ph.ras_n & ~ph.cas_n & ph.we_n),
                d["mrs"].eq(sel_any & ~ph.ras_n & ~ph.cas_n & ~ph.we_n),
                d["zqc"].eq(sel_any & ph.ras_n & ph.cas_n & ~ph.we_n),
            ]
            dec.append(d)
            # phase placement and data enables
            acc["rd_wr_on_wrong_phase_or_data_enable_mismatch"] += [
                d["rd"] & (p != rdphase), d["wr"] & (p != wrphase),
                ph.rddata_en != d["rd"], ph.wrdata_en != d["wr"]]
            acc["unexpected_mrs_command"].append(d["mrs"])
            if nranks > 1:
                nsel = reduce(lambda a, b: a + b, [ph.cs_n[r] == 0 for r in range(nranks)])
                cmd_single = d["act"] | d["rd"] | d["wr"] | (d["pre"] & ~d["a10"])
                acc["chip_select_not_single_rank"].append(cmd_single & (nsel != 1))
                acc["refresh_not_to_all_ranks"].append((d["ref"] | d["zqc"]) & (ph.cs_n != 0))
        self.dec = dec

        # ---- helpers for ages ---------------------------------------------------------------
        def sat_inc(x):
            y = Signal(AW)
            self.comb += y.eq(Mux(x == SAT, SAT, x + 1))
            return y

        class Age:
            """clocks elapsed since the last event (saturating); cur = age as seen at the current phase"""
            def __init__(s, mon, reset=SAT):
                s.reg = Signal(AW, reset=reset)
                s.cur = s.reg
                s.mon = mon

            def event(s, cond):
                """to be called after all checks of this phase"""
                n = Signal(AW)
                s.mon.comb += n.eq(Mux(cond, 0, s.cur))
                s.cur = n

            def step(s):
                s.cur = sat_inc(s.cur)

            def close(s):
                s.mon.sync += s.reg.eq(s.cur)

        ages = []

        def age():
            a = Age(self)
            ages.append(a)
            return a

        def lt(a, key):
            r = req.get(key)
            if not r:
                return Constant(0, 1)
            return a.cur < r

        # ---- state ----------------------------------------------------------------------------
        self.open = opn = [[Signal(name_override="mon_open_r%d_b%d" % (r, b)) for b in range(nb)] for r in range(nranks)]
        self.row = row = [[Signal(rowbits, name_override="mon_row_r%d_b%d" % (r, b)) for b in range(nb)] for r in range(nranks)]
        ap_wr = [[Signal() for b in range(nb)] for r in range(nranks)]   # closed by auto-precharge of a write
        ap_rd = [[Signal() for b in range(nb)] for r in range(nranks)]
        cur_open = [[opn[r][b] for b in range(nb)] for r in range(nranks)]
        cur_row = [[row[r][b] for b in range(nb)] for r in range(nranks)]
        cur_apw = [[ap_wr[r][b] for b in range(nb)] for r in range(nranks)]
        cur_apr = [[ap_rd[r][b] for b in range(nb)] for r in range(nranks)]
        a_act = [[age() for b in range(nb)] for r in range(nranks)]
        a_pre = [[age() for b in range(nb)] for r in range(nranks)]
        a_wr = [[age() for b in range(nb)] for r in range(nranks)]
        a_rd = [[age() for b in range(nb)] for r in range(nranks)]
        a_act_any = [age() for r in range(nranks)]
        a_faw = [[age() for i in range(4)] for r in range(nranks)]  # ages of the last four ACTs, [0] newest
        a_cas_any = [age() for r in range(nranks)]
        a_wr_any = [age() for r in range(nranks)]
        a_ref = [age() for r in range(nranks)]
        a_zqc = [age() for r in range(nranks)]
        a_pre_any = [age() for r in range(nranks)]
        self.ncas = Signal(8)  # statistics for covers
        seen = {k: Signal(name_override="seen_" + k) for k in ["act", "pre", "prea", "rd", "wr", "ref", "zqc", "ap"]}
        seen_now = {k: [] for k in seen}

        self.open_at = []
        self.row_at = []
        for p, d in enumerate(dec):
            self.open_at.append([list(x) for x in cur_open])
            self.row_at.append([list(x) for x in cur_row])
            for r in range(nranks):
                s = d["sel"][r]
                prea = d["pre"] & d["a10"] & s
                ref = d["ref"] & s
                zqc = d["zqc"] & s
                anyopen = any_(cur_open[r])
                acc["ref_or_zqcs_with_open_bank"].append((ref | zqc) & anyopen)
                # after refresh / zqcs nothing may be issued before tRFC / tZQCS
                anycmd = s & (d["act"] | d["pre"] | d["rd"] | d["wr"] | d["ref"] | d["zqc"] | d["mrs"])
                acc["tRFC"].append(anycmd & lt(a_ref[r], "tRFC"))
                acc["tZQCS"].append(anycmd & lt(a_zqc[r], "tZQCS"))
                acc["tRP_ref"].append((ref | zqc) & lt(a_pre_any[r], "tRP"))
                act_r = d["act"] & s
                acc["tRRD"].append(act_r & lt(a_act_any[r], "tRRD"))
                acc["tFAW"].append(act_r & lt(a_faw[r][3], "tFAW"))
                cas_r = (d["rd"] | d["wr"]) & s
                acc["tCCD"].append(cas_r & lt(a_cas_any[r], "tCCD"))
                acc["tWTR"].append(d["rd"] & s & lt(a_wr_any[r], "tWTR_total"))
                for b in range(nb):
                    hit = Signal()
                    self.comb += hit.eq(s & (d["bank"] == b))
                    act = d["act"] & hit
                    pre1 = d["pre"] & hit & ~d["a10"]
                    pre = pre1 | prea
                    rd = d["rd"] & hit
                    wr = d["wr"] & hit
                    o = cur_open[r][b]
                    acc["act_to_open_bank"].append(act & o)
                    acc["cas_to_closed_bank"].append((rd | wr) & ~o)
                    acc["tRCD"].append((rd | wr) & lt(a_act[r][b], "tRCD"))
                    acc["tRP"].append(act & lt(a_pre[r][b], "tRP"))
                    acc["tRC"].append(act & lt(a_act[r][b], "tRC"))
                    # explicit precharge of an open bank: tRAS after ACT, write recovery after WR
                    acc["tRAS"].append(pre1 & o & lt(a_act[r][b], "tRAS"))
                    acc["tRAS_prea"].append(prea & o & lt(a_act[r][b], "tRAS"))
                    acc["tWR"].append(pre1 & o & lt(a_wr[r][b], "tWR_total"))
                    acc["tWR_prea"].append(prea & o & lt(a_wr[r][b], "tWR_total"))
                    # bank closed by auto-precharge: internal precharge starts at max(ACT+tRAS, WR+tWR_total, RD)
                    if req.get("tRP") and req.get("tRAS"):
                        acc["tRAS_ap"].append(act & (cur_apw[r][b] | cur_apr[r][b]) & (a_act[r][b].cur < req["tRAS"] + req["tRP"]))
                    if req.get("tRP") and req.get("tWR_total"):
                        acc["tWR_ap"].append(act & cur_apw[r][b] & (a_wr[r][b].cur < req["tWR_total"] + req["tRP"]))
                    if req.get("tRP"):
                        acc["tRP_ap_rd"].append(act & cur_apr[r][b] & (a_rd[r][b].cur < req["tRP"]))
                    # next state
                    ap = (rd | wr) & d["a10"] if a10_autoprecharge else Constant(0, 1)
                    no = Signal()
                    self.comb += no.eq(Mux(act, 1, Mux(pre | ap, 0, o)))
                    cur_open[r][b] = no
                    nr = Signal(rowbits)
                    self.comb += nr.eq(Mux(act, d["row"], cur_row[r][b]))
                    cur_row[r][b] = nr
                    nw = Signal()
                    nrd = Signal()
                    self.comb += [nw.eq(Mux(act | pre, 0, Mux(wr & ap, 1, cur_apw[r][b]))),
                                  nrd.eq(Mux(act | pre, 0, Mux(rd & ap, 1, cur_apr[r][b])))]
                    cur_apw[r][b], cur_apr[r][b] = nw, nrd
                    a_act[r][b].event(act)
                    a_pre[r][b].event(pre & o)
                    a_wr[r][b].event(wr)
                    a_rd[r][b].event(rd)
                    seen_now["ap"].append(ap)
                # per-rank ages
                olds = [a.cur for a in a_faw[r]]
                for i in range(3, 0, -1):
                    n = Signal(AW)
                    self.comb += n.eq(Mux(act_r, olds[i - 1], olds[i]))
                    a_faw[r][i].cur = n
                a_faw[r][0].event(act_r)
                a_act_any[r].event(act_r)
                a_cas_any[r].event(cas_r)
                a_wr_any[r].event(d["wr"] & s)
                a_ref[r].event(ref)
                a_zqc[r].event(zqc)
                a_pre_any[r].event(d["pre"] & s)
            for k, sig in (("act", d["act"]), ("pre", d["pre"] & ~d["a10"]), ("prea", d["pre"] & d["a10"]),
                           ("rd", d["rd"]), ("wr", d["wr"]), ("ref", d["ref"]), ("zqc", d["zqc"])):
                seen_now[k].append(sig)
            for a in ages:
                a.step()
        for a in ages:
            a.close()
        for r in range(nranks):
            for b in range(nb):
                self.sync += [opn[r][b].eq(cur_open[r][b]), row[r][b].eq(cur_row[r][b]),
                              ap_wr[r][b].eq(cur_apw[r][b]), ap_rd[r][b].eq(cur_apr[r][b])]
        for k, lst in acc.items():
            self.comb += bads[k].eq(any_(lst))
        self.now = {}
        for k in seen:
            now = Signal(name_override="now_" + k)
            self.comb += now.eq(any_(seen_now[k]))
            self.now[k] = now
            self.sync += If(now, seen[k].eq(1))
        self.seen = seen
        self.end_open = cur_open
        self.end_row = cur_row


def addr_oracle(addr, colbits, bankbits, align, bank_byte_alignment=0, data_width=8):
    """independent bit-field reference of the ROW_BANK_COL mapping (see checks/c06.py): returns Migen
    expressions (bank, row, column-bus-address-without-A10-flag)"""
    cs = colbits - align
    shift = cs
    if bank_byte_alignment:
        w = bank_byte_alignment // (data_width // 8)
        shift = max(cs, w.bit_length() - 1 if w > 0 else 0)
    bank = addr[shift:shift + bankbits]
    colidx = addr[:cs]
    row = Cat(addr[cs:shift], addr[shift + bankbits:]) if shift > cs else addr[shift + bankbits:]
    if colbits > 10:
        colbus = Cat(Replicate(0, align), colidx[:10 - align], Constant(0, 1), colidx[10 - align:])
    else:
        colbus = Cat(Replicate(0, align), colidx) if align else colidx
    return bank, row, colbus


class TrackMonitor(Module):
    """End-to-end command/data matching for one marked command, tracked by queue position (no ordinals).

    A free input `mark` chooses which accepted command of port PSEL (symbolic constant) is followed.  At
    acceptance the monitor records how many requests are outstanding for its bank (accepted, CAS not yet on the
    DFI) and how many data strobes of its direction are outstanding on its port; both are counted down.
      * the CAS that finds the bank-queue position at zero is the marked command's: it must have its direction
        and column, and the row open in that bank (reconstructed from DFI ACT/PRE) must be its row;
      * no bank ever sees a CAS with no outstanding request; no port a strobe with no outstanding command;
      * the strobe that finds the port position at zero must fall exactly write_latency / read_latency cycles
        after that CAS is on the DFI (so the DFI data phases carry this command's data), and conversely;
      * in a write strobe cycle the DFI write data/mask of all phases carry that port's wdata / ~we; in a read
        beat cycle the port sees the concatenated DFI read data; never two ports strobed at once.
    """
    def __init__(self, ports, dfi, mon, colbits, bankbits, align, write_latency, read_latency, cw=4,
                 bank_byte_alignment=0):
        np_ = len(ports)
        nb = 2**bankbits
        dw = len(ports[0].wdata.data)
        self.psel = Signal(max=max(np_, 2), name_override="PSEL")
        self.mark = Signal(name_override="mark")
        bads = self.bads = {}
        MAXC = 2**cw - 1

        def bad(name):
            s = Signal(name_override="bad_" + name)
            bads[name] = s
            return s
        outst = [Signal(cw) for _ in range(nb)]          # accepted requests whose CAS is not yet on the DFI
        pendw = [Signal(cw) for _ in ports]              # accepted writes without strobe yet
        pendr = [Signal(cw) for _ in ports]
        marked = Signal()
        cas_done = Signal()
        str_done = Signal()
        mW = Signal()
        mB = Signal(max=max(nb, 2))
        mRow = Signal(len(mon.row[0][0]))
        mCol = Signal(len(dfi.phases[0].address))
        ahead_b = Signal(cw)
        ahead_p = Signal(cw)
        self.marked = marked
        accept = [p.cmd.valid & p.cmd.ready for p in ports]
        orc = [addr_oracle(p.cmd.addr, colbits, bankbits, align, bank_byte_alignment, dw) for p in ports]
        # DFI CAS per bank this cycle (the multiplexer issues at most one CAS per cycle)
        cas_b = []
        for b in range(nb):
            c = Signal()
            self.comb += c.eq(any_([(d["rd"] | d["wr"]) & (d["bank"] == b) for d in mon.dec]))
            cas_b.append(c)
        ncas = reduce(lambda x, y: x + y, [(d["rd"] | d["wr"]) for d in mon.dec])
        v_two_cas = bad("more_than_one_cas_in_a_cycle")
        self.comb += v_two_cas.eq(ncas > 1)
        acc_b = []
        for b in range(nb):
            hits = [accept[i] & (orc[i][0] == b) for i in range(np_)]
            n = Signal(max=np_ + 1)
            self.comb += n.eq(reduce(lambda x, y: x + y, hits))
            acc_b.append(n)
            self.sync += outst[b].eq(outst[b] + n - cas_b[b])
        v_two = bad("two_ports_accepted_for_one_bank_in_one_cycle")
        self.comb += v_two.eq(any_([n > 1 for n in acc_b]))
        v_cas_wo = bad("cas_without_outstanding_request")
        self.comb += v_cas_wo.eq(any_([cas_b[b] & (outst[b] == 0) for b in range(nb)]))
        v_ovf = bad("monitor_counter_overflow_more_outstanding_than_queues_hold")
        self.comb += v_ovf.eq(any_([x >= MAXC - 1 for x in outst + pendw + pendr]))
        # marking
        mark_now = Signal()
        for i, p in enumerate(ports):
            hit = Signal()
            self.comb += hit.eq(accept[i] & (self.psel == i) & self.mark & ~marked)
            b_i = orc[i][0]
            self.sync += If(hit,
                            marked.eq(1), mW.eq(p.cmd.we), mB.eq(b_i),
                            # position behind the requests already outstanding (a CAS in this very cycle serves one of them)
                            ahead_b.eq(Array(outst)[b_i] - Array(cas_b)[b_i]),
                            ahead_p.eq(Mux(p.cmd.we, pendw[i] - p.wdata.ready, pendr[i] - p.rdata.valid)),
                            mRow.eq(orc[i][1]), mCol.eq(orc[i][2]))
            self.comb += If(hit, mark_now.eq(1))
        # marked CAS
        my_cas = Signal()
        self.comb += my_cas.eq(marked & ~cas_done & Array(cas_b)[mB] & (ahead_b == 0))
        self.sync += [If(marked & ~cas_done & Array(cas_b)[mB], If(ahead_b == 0, cas_done.eq(1)).Else(ahead_b.eq(ahead_b - 1)))]
        v_cas_mismatch = bad("marked_cas_wrong_direction_column_or_row")
        mism = []
        colmask = (2**len(dfi.phases[0].address) - 1) & ~(1 << 10)
        for pi, d in enumerate(mon.dec):
            for b in range(nb):
                this = (d["rd"] | d["wr"]) & (d["bank"] == b) & (mB == b)
                mism.append(my_cas & this & ((d["wr"] != mW) | ((d["ph"].address & colmask) != (mCol & colmask)) |
                                             (mon.row_at[pi][0][b] != mRow) | ~mon.open_at[pi][0][b]))
        self.comb += v_cas_mismatch.eq(any_(mism))
        # expected strobe time
        maxlat = max(write_latency, read_latency, 1)
        pend = Signal()
        wait = Signal(max=maxlat + 1)
        exp_now = Signal()
        lat = Mux(mW, write_latency, read_latency)
        self.comb += exp_now.eq((my_cas & (lat == 0)) | (pend & (wait == 0)))
        self.sync += [
            If(my_cas & (lat != 0), pend.eq(1), wait.eq(lat - 1)
            ).Elif(pend & (wait != 0), wait.eq(wait - 1)
            ).Elif(pend, pend.eq(0))]
        v_str_mis = bad("marked_data_strobe_not_aligned_with_its_dfi_data_phase")
        v_str_wo = bad("data_strobe_without_outstanding_command")
        v_route_w = bad("write_data_or_mask_on_dfi_differs_from_strobed_port")
        v_route_r = bad("read_data_at_port_differs_from_dfi")
        v_multi = bad("two_ports_strobed_in_one_cycle")
        wo, rw, rr = [], [], []
        my_strobe = Signal()
        all_wr = Cat(*[ph.wrdata for ph in dfi.phases])
        all_mask = Cat(*[ph.wrdata_mask for ph in dfi.phases])
        all_rd = Cat(*[ph.rddata for ph in dfi.phases])
        for i, p in enumerate(ports):
            ws, rs = p.wdata.ready, p.rdata.valid
            aw = accept[i] & p.cmd.we
            ar = accept[i] & (p.cmd.we == 0)
            self.sync += [pendw[i].eq(pendw[i] + aw - ws), pendr[i].eq(pendr[i] + ar - rs)]
            wo += [ws & (pendw[i] == 0), rs & (pendr[i] == 0)]
            rw.append(ws & ((all_wr != p.wdata.data) | (all_mask != (~p.wdata.we & (2**len(p.wdata.we) - 1)))))
            rr.append(rs & (p.rdata.data != all_rd))
            mine = Signal()
            self.comb += mine.eq(marked & ~str_done & (self.psel == i) & ((ws & mW) | (rs & (mW == 0))))
            self.comb += If(mine & (ahead_p == 0), my_strobe.eq(1))
            self.sync += If(mine, If(ahead_p == 0, str_done.eq(1)).Else(ahead_p.eq(ahead_p - 1)))
        nstr = reduce(lambda x, y: x + y, [p.wdata.ready for p in ports])
        nstr_r = reduce(lambda x, y: x + y, [p.rdata.valid for p in ports])
        self.comb += [
            v_str_mis.eq(my_strobe != exp_now), v_str_wo.eq(any_(wo)),
            v_route_w.eq(any_(rw)), v_route_r.eq(any_(rr)),
            v_multi.eq((nstr > 1) | (nstr_r > 1)),
        ]
        # witnesses
        self.cov_marked_write_done = Signal()
        self.cov_marked_read_done = Signal()
        self.cov_marked_queued_behind_two = Signal()
        self.comb += [self.cov_marked_write_done.eq(my_strobe & mW), self.cov_marked_read_done.eq(my_strobe & (mW == 0))]
        deep = Signal()
        self.sync += If(mark_now & ((Array(outst)[Array([o[0] for o in orc])[self.psel]]) >= 2), deep.eq(1))
        self.comb += self.cov_marked_queued_behind_two.eq(my_strobe & deep)
