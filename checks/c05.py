"""C05 -- no deadlock, no starved port, no starved direction (bounded response)."""
from functools import partial
import math
from migen import *
from vlib import corebench, monitors

FILES = ["litedram/core/multiplexer.py", "litedram/core/crossbar.py", "litedram/core/bankmachine.py"]
LEVEL = "model_checking"
TECHNIQUE = ("bounded model checking (z3 QF_BV) of the elaborated real crossbar+controller with age counters on the victim "
             "port's pending command and outstanding data strobes; all other ports adversarial; replay on migen.sim")
EXPLANATION = ("Liveness is checked as bounded response: the oldest un-accepted command of each port and the oldest accepted "
               "command still waiting for its data strobe may never be older than B cycles, B a closed-form function of the "
               "configuration only (queue depth x worst row-miss service + anti-starvation windows + one refresh).  The other "
               "ports and the refresh phase are free solver variables.")


def response_bound(ts, ps, ctrl, nbanks, nports):
    """B_cfg: closed form, configuration only"""
    wl = math.ceil(ps.cwl / ps.nphases)
    twtp = wl + ts.tWR + (ts.tCCD or 1)
    miss = twtp + max(ts.tRAS or 0, 0) + ts.tRP + max(ts.tRC or 0, ts.tRP) + ts.tRCD + (ts.tRRD or 0) + 4   # one row-miss service
    turn = ctrl.read_time + ctrl.write_time + ps.read_latency + (ts.tWTR or 0) + wl + (ts.tCCD or 1) + 4
    refresh = ts.tRP + ts.tRFC + miss + 8
    depth = ctrl.cmd_buffer_depth + 2 + (1 if ctrl.cmd_buffer_buffered else 0)
    accept = (depth + 1) * miss + 2 * turn + refresh            # until a queue slot frees for the victim (per competing port)
    return accept * max(1, nports - 1) + miss, accept * max(1, nports - 1) + depth * miss + 2 * turn + refresh + ps.read_latency + 4


def _extra(core, top, mon, kw, fair=True, calibrate=False):
    ps, ts, cs = core.phy_settings, core.timing_settings, core.ctrl_settings
    gs = core.geom_settings
    align = core.controller.interface.address_align
    if fair and len(core.ports) > 1:
        v = core.ports[0]
        vb = monitors.addr_oracle(v.cmd.addr, gs.colbits, gs.bankbits, align)[0]
        clash = monitors.any_([p.cmd.valid & (monitors.addr_oracle(p.cmd.addr, gs.colbits, gs.bankbits, align)[0] == vb)
                               for p in core.ports[1:]])
        a = Signal(name_override="asm_no_other_port_on_victims_bank")
        top.comb += a.eq(~(v.cmd.valid & clash))
        kw["assumes"]["others_leave_victims_bank_alone_while_it_requests"] = a
    nb = 2**core.geom_settings.bankbits
    B_acc, B_data = response_bound(ts, ps, cs, nb, len(core.ports))
    top.B = (B_acc, B_data)
    kw["bads"] = {}
    W = bits_for(B_data + 2)
    # local progress: a bank machine's pending request to the multiplexer (CAS or row command)
    bms = [m for n_, m in core.controller._submodules if type(m).__name__ == "BankMachine"]
    top.bm_age = []
    for bi, bm in enumerate(bms):
        a = Signal(W)
        top.sync += If(bm.cmd.valid & ~bm.cmd.ready, a.eq(Mux(a == 2**W - 1, a, a + 1))).Else(a.eq(0))
        top.bm_age.append(a)
        if calibrate and bi == 0:
            for th in (8, 12, 16, 20, 24, 28, 32):
                c = Signal()
                top.comb += c.eq((a >= th) & (bm.cmd.is_read | bm.cmd.is_write))
                kw["covers"]["cal_bm_cas_req_age_ge_%d" % th] = c
                c = Signal()
                top.comb += c.eq((a >= th) & bm.cmd.is_cmd)
                kw["covers"]["cal_bm_row_req_age_ge_%d" % th] = c
    for i, p in enumerate(core.ports):
        age = Signal(W)
        top.sync += If(p.cmd.valid & ~p.cmd.ready, age.eq(Mux(age == 2**W - 1, age, age + 1))).Else(age.eq(0))
        b = Signal(name_override="bad_p%d_command_not_accepted_within_B" % i)
        top.comb += b.eq(age > B_acc)
        kw["bads"]["p%d_command_not_accepted_within_B" % i] = b
        # outstanding strobes: count accepted-but-unserved commands and the age of the oldest one
        outw = Signal(8)
        outr = Signal(8)
        accw = p.cmd.valid & p.cmd.ready & p.cmd.we
        accr = p.cmd.valid & p.cmd.ready & ~p.cmd.we
        top.sync += [outw.eq(outw + accw - p.wdata.ready), outr.eq(outr + accr - p.rdata.valid)]
        # age since the oldest outstanding became oldest (reset on every strobe)
        agew = Signal(W)
        ager = Signal(W)
        top.sync += [
            If((outw == 0) | p.wdata.ready, agew.eq(0)).Else(agew.eq(Mux(agew == 2**W - 1, agew, agew + 1))),
            If((outr == 0) | p.rdata.valid, ager.eq(0)).Else(ager.eq(Mux(ager == 2**W - 1, ager, ager + 1))),
        ]
        bw = Signal(name_override="bad_p%d_write_strobe_late" % i)
        br = Signal(name_override="bad_p%d_read_data_late" % i)
        top.comb += [bw.eq(agew > B_data), br.eq(ager > B_data)]
        kw["bads"]["p%d_write_data_strobe_not_within_B" % i] = bw
        kw["bads"]["p%d_read_data_not_within_B" % i] = br
        if i == 0 and calibrate:
            for th in (12, 16, 20, 24, 28, 32, 40):
                c = Signal()
                top.comb += c.eq(age >= th)
                kw["covers"]["cal_accept_age_ge_%d" % th] = c
                c = Signal()
                top.comb += c.eq((agew >= th) | (ager >= th))
                kw["covers"]["cal_data_age_ge_%d" % th] = c
        if i == 0:
            c = Signal()
            top.comb += c.eq(age >= 8)
            kw["covers"]["p0_command_stalled_8_cycles_by_others"] = c
            c2 = Signal()
            top.comb += c2.eq(p.rdata.valid & mon.seen["ref"] & mon.seen["wr"])
            kw["covers"]["p0_read_served_after_refresh_and_writes"] = c2


T_MIN = dict(tRP=1, tRCD=1, tWR=1, tWTR=1, tREFI=100, tRFC=2, tFAW=None, tCCD=1, tRRD=None, tRC=None, tRAS=None)
T_SMALL = dict(tRP=2, tRCD=2, tWR=2, tWTR=2, tREFI=100, tRFC=3, tFAW=None, tCCD=1, tRRD=None, tRC=None, tRAS=None)
T_CCD2 = dict(tRP=1, tRCD=1, tWR=1, tWTR=1, tREFI=100, tRFC=2, tFAW=None, tCCD=2, tRRD=None, tRC=None, tRAS=None)

CONFIGS = {
    "sdr_2b_2p_d2_rt4": (dict(phy="sdr_fast", bankbits=1, nports=2, timing=T_MIN,
                              ctrl=dict(cmd_buffer_depth=2, read_time=4, write_time=4)), 46, 70, "qt"),
    "ddr3h_2b_2p_d2_tccd2": (dict(phy="ddr3_fast2", bankbits=1, nports=2, timing=T_CCD2,
                                  ctrl=dict(cmd_buffer_depth=2, read_time=4, write_time=4)), 46, 70, "qt"),
    "ddr3_2b_2p_d2_rt8": (dict(phy="ddr3_fast", bankbits=1, nports=2, timing=T_MIN,
                               ctrl=dict(cmd_buffer_depth=2, read_time=8, write_time=4)), 0, 70, "t"),
    "sdr_2b_3p_d2": (dict(phy="sdr_fast", bankbits=1, nports=3, timing=T_MIN,
                          ctrl=dict(cmd_buffer_depth=2, read_time=4, write_time=4)), 0, 90, "t"),
    "sdr_2b_2p_d4_noap": (dict(phy="sdr_fast", bankbits=1, nports=2, timing=T_SMALL,
                               ctrl=dict(cmd_buffer_depth=4, read_time=4, write_time=4, with_auto_precharge=False)), 0, 100, "t"),
}
BENCHES = {n: partial(corebench.core_bench, n, c[0], None, True, _extra) for n, c in CONFIGS.items()}
BENCHES["calibrate"] = partial(corebench.core_bench, "calibrate", CONFIGS["sdr_2b_2p_d2_rt4"][0], None, True,
                               partial(_extra, calibrate=True))
BENCHES["calibrate2"] = partial(corebench.core_bench, "calibrate2", CONFIGS["ddr3h_2b_2p_d2_tccd2"][0], None, True,
                                partial(_extra, calibrate=True))


def run(ctx):
    ctx.assume("every port holds its command until accepted (master contract); otherwise all ports are adversarial free inputs")
    ctx.assume("bound B from the closed form response_bound(configuration); small read_time/write_time (4..8) and command "
               "buffers (2..4) so that B fits the BMC horizon; default 32/16 timers scale by the same formula (not re-proved)")
    ctx.assume("bounded response only up to the BMC depth; true unbounded liveness is outside the claim")
    for n, (c, kq, kt, tiers) in CONFIGS.items():
        if ctx.only and not ctx.only.search(n):
            continue
        if ctx.tier == "quick" and "q" in tiers:
            ctx.add(n, kq, timeout=1200)
        elif ctx.tier == "thorough":
            ctx.add(n, kt, timeout=3000)
    ctx.run()
