"""C05 -- no deadlock, no starved port, no starved direction (bounded response, decomposed)."""
from functools import partial
import math
from migen import *
from vlib import corebench, monitors

FILES = ["litedram/core/multiplexer.py", "litedram/core/crossbar.py", "litedram/core/bankmachine.py"]
LEVEL = "model_checking"
TECHNIQUE = ("bounded model checking (z3 QF_BV) of the elaborated real crossbar+controller with bounded-response monitors "
             "(ages of pending bank-machine requests, of banks with outstanding requests, of port commands and data strobes); "
             "all ports adversarial; bounds are closed-form functions of the configuration; replay on migen.sim")
EXPLANATION = ("Liveness is checked as bounded response, decomposed so that every bound is smaller than the BMC depth: "
               "(1) a bank machine's pending request to the multiplexer is accepted within B_req (direction anti-starvation, "
               "round-robin choosers, turnaround states); (2) a bank with outstanding requests gets a CAS at least every "
               "B_head cycles (precharge/activate chains, refresh); (3) a port whose target bank is left alone by the other "
               "ports while it requests is accepted within B_acc and gets its data strobe within B_data (generous closed forms: "
               "only meaningful where the depth exceeds them -- stated per bench); (4) fully adversarial ports: a requesting "
               "port is bypassed on its bank at most N times.  Other ports and the refresh phase are free solver variables.")


def bounds(ts, ps, ctrl, nbanks, nports):
    wl = math.ceil(ps.cwl / ps.nphases)
    tccd = ts.tCCD or 1
    turn = max(ps.read_latency - 1, (ts.tWTR or 0) + wl + tccd)
    B_req_cas = max(ctrl.read_time, ctrl.write_time) + turn + (nbanks + 2) * tccd + 2
    B_req_row = (ts.tRRD or 0) + (ts.tFAW or 0) + nbanks + 4
    twtp = wl + ts.tWR + tccd
    refresh = ts.tRP + ts.tRFC + 6
    B_head = twtp + (ts.tRAS or 0) + ts.tRP + (ts.tRC or 0) + ts.tRCD + 2 * B_req_row + 2 * B_req_cas + refresh
    depth = ctrl.cmd_buffer_depth + 2 + (1 if ctrl.cmd_buffer_buffered else 0)
    B_acc = 2 * (depth + 1) * B_head
    B_data = B_acc + (depth + 1) * B_head + ps.read_latency + 4
    return dict(B_req_cas=B_req_cas, B_req_row=B_req_row, B_head=B_head, B_acc=B_acc, B_data=B_data)


def _extra(core, top, mon, kw, fair=True, calibrate=False):
    ps, ts, cs, gs = core.phy_settings, core.timing_settings, core.ctrl_settings, core.geom_settings
    nb = 2**gs.bankbits
    align = core.controller.interface.address_align
    B = bounds(ts, ps, cs, nb, len(core.ports))
    top.B = B
    kw["bads"] = {}
    W = 9
    SAT = 2**W - 1

    def age_counter(run, clear=None):
        a = Signal(W)
        if clear is None:
            top.sync += If(run, a.eq(Mux(a == SAT, a, a + 1))).Else(a.eq(0))
        else:
            top.sync += If(clear | ~run, a.eq(0)).Else(a.eq(Mux(a == SAT, a, a + 1)))
        return a

    def bad(name, expr):
        s = Signal(name_override="bad_" + name)
        top.comb += s.eq(expr)
        kw["bads"][name] = s

    def cov(name, expr):
        s = Signal()
        top.comb += s.eq(expr)
        kw["covers"][name] = s
    v = core.ports[0]
    banks_of = [monitors.addr_oracle(p.cmd.addr, gs.colbits, gs.bankbits, align)[0] for p in core.ports]
    if fair and len(core.ports) > 1:
        clash = monitors.any_([p.cmd.valid & (banks_of[i + 1] == banks_of[0]) for i, p in enumerate(core.ports[1:])])
        a = Signal(name_override="asm_no_other_port_on_victims_bank")
        top.comb += a.eq(~(v.cmd.valid & clash))
        kw["assumes"]["others_leave_victims_bank_alone_while_it_requests"] = a
    # (1) bank machine -> multiplexer requests
    bms = [m for n_, m in core.controller._submodules if type(m).__name__ == "BankMachine"]
    for bi, bm in enumerate(bms):
        a = age_counter(bm.cmd.valid & ~bm.cmd.ready)
        bad("bank%d_read_write_request_not_served_within_B_req" % bi, (a > B["B_req_cas"]) & (bm.cmd.is_read | bm.cmd.is_write))
        bad("bank%d_row_command_request_not_served_within_B_req" % bi, (a > B["B_req_row"]) & bm.cmd.is_cmd)
        if bi == 0:
            cov("bank0_cas_request_waits_6_cycles", (a >= 6) & (bm.cmd.is_read | bm.cmd.is_write))
            if calibrate:
                for th in (8, 12, 16, 20):
                    cov("cal_bm_cas_req_age_ge_%d" % th, (a >= th) & (bm.cmd.is_read | bm.cmd.is_write))
                    cov("cal_bm_row_req_age_ge_%d" % th, (a >= th) & bm.cmd.is_cmd)
    # (2) bank with outstanding requests: CAS at least every B_head cycles
    for b in range(nb):
        outst = Signal(5)
        acc = [p.cmd.valid & p.cmd.ready & (banks_of[i] == b) for i, p in enumerate(core.ports)]
        nacc = Signal(max=len(core.ports) + 1)
        top.comb += nacc.eq(sum(acc[1:], acc[0]))
        cas = Signal()
        top.comb += cas.eq(monitors.any_([(d["rd"] | d["wr"]) & (d["bank"] == b) for d in mon.dec]))
        top.sync += outst.eq(outst + nacc - cas)
        a = age_counter(outst != 0, clear=cas)
        bad("bank%d_outstanding_request_without_cas_for_B_head" % b, a > B["B_head"])
        if b == 0:
            cov("bank0_head_waits_12_cycles", a >= 12)
            if calibrate:
                for th in (16, 20, 24, 28, 32, 36, 40):
                    cov("cal_head_age_ge_%d" % th, a >= th)
    # (3a) every port: a data strobe belongs to an accepted command of that port (a strobe steered to another port leaves the
    #      owner waiting for ever -- the finite-window face of "no accepted request is left without its data")
    for i, p in enumerate(core.ports):
        ow = Signal(6)
        orr = Signal(6)
        aw_ = p.cmd.valid & p.cmd.ready & p.cmd.we
        ar_ = p.cmd.valid & p.cmd.ready & (p.cmd.we == 0)
        top.sync += [ow.eq(ow + aw_ - p.wdata.ready), orr.eq(orr + ar_ - p.rdata.valid)]
        bad("p%d_data_strobe_without_an_accepted_command_of_this_port" % i, (p.wdata.ready & (ow == 0)) | (p.rdata.valid & (orr == 0)))
    # (3) port level, generous closed forms
    for i, p in enumerate(core.ports):
        if fair and i != 0:
            continue
        age = age_counter(p.cmd.valid & ~p.cmd.ready)
        if fair:
            bad("p%d_command_not_accepted_within_B_acc" % i, age > B["B_acc"])
        outw = Signal(6)
        outr = Signal(6)
        accw = p.cmd.valid & p.cmd.ready & p.cmd.we
        accr = p.cmd.valid & p.cmd.ready & (p.cmd.we == 0)
        top.sync += [outw.eq(outw + accw - p.wdata.ready), outr.eq(outr + accr - p.rdata.valid)]
        agew = age_counter(outw != 0, clear=p.wdata.ready)
        ager = age_counter(outr != 0, clear=p.rdata.valid)
        bad("p%d_write_data_strobe_not_within_B_data" % i, agew > B["B_data"])
        bad("p%d_read_data_not_within_B_data" % i, ager > B["B_data"])
        if i == 0:
            cov("p0_command_stalled_8_cycles_by_others", age >= 8)
            cov("p0_read_served_after_refresh_and_writes", p.rdata.valid & mon.seen["ref"] & mon.seen["wr"])
    # (2b) a refresh request is granted within L cycles (otherwise every bank parks in REFRESH and all ports starve)
    if cs.with_refresh:
        from checks.c04 import service_latency_bound
        L = service_latency_bound(ts, ps, nb * ps.nranks, cs)
        rcmd = core.controller.refresher.cmd
        ra = age_counter(rcmd.valid & ~rcmd.ready)
        bad("refresh_request_not_granted_within_L_ports_would_starve", ra > L)
        top.L = L
    # (4) adversarial: bypass count on the victim's bank
    if not fair and len(core.ports) > 1:
        NB = 2 * (len(core.ports) - 1) + 2
        byp = Signal(5)
        others_acc = monitors.any_([p.cmd.valid & p.cmd.ready & (banks_of[i + 1] == banks_of[0])
                                    for i, p in enumerate(core.ports[1:])])
        top.sync += If(v.cmd.valid & ~v.cmd.ready, If(others_acc, byp.eq(Mux(byp == 31, 31, byp + 1)))).Else(byp.eq(0))
        bad("requesting_port_bypassed_on_its_bank_more_than_N_times", byp > NB)
        top.NB = NB


T_MIN = dict(tRP=1, tRCD=1, tWR=1, tWTR=1, tREFI=100, tRFC=2, tFAW=None, tCCD=1, tRRD=None, tRC=None, tRAS=None)
T_SMALL = dict(tRP=2, tRCD=2, tWR=2, tWTR=2, tREFI=100, tRFC=3, tFAW=None, tCCD=1, tRRD=None, tRC=None, tRAS=None)
T_CCD2 = dict(tRP=1, tRCD=1, tWR=1, tWTR=1, tREFI=100, tRFC=2, tFAW=None, tCCD=2, tRRD=None, tRC=None, tRAS=None)
T_FULL = dict(tRP=2, tRCD=2, tWR=2, tWTR=2, tREFI=100, tRFC=3, tFAW=6, tCCD=2, tRRD=2, tRC=6, tRAS=4)

CONFIGS = {
    # name: (core kwargs, fair, Kq, Kt, tiers)
    "fair_sdr_2b_2p_d2_rt4": (dict(phy="sdr_fast", bankbits=1, nports=2, timing=T_MIN,
                                   ctrl=dict(cmd_buffer_depth=2, read_time=4, write_time=4)), True, 44, 64, "qt"),
    "fair_ddr3h_2b_2p_d2_tccd2": (dict(phy="ddr3_fast2", bankbits=1, nports=2, timing=T_CCD2,
                                       ctrl=dict(cmd_buffer_depth=2, read_time=4, write_time=4)), True, 44, 64, "qt"),
    "fair_sdr_2b_2p_d1": (dict(phy="sdr_fast", bankbits=1, nports=2, timing=T_MIN,
                               ctrl=dict(cmd_buffer_depth=1, read_time=4, write_time=4)), True, 40, 60, "qt"),
    "fair_ddr3_2b_2p_d2_tfaw": (dict(phy="ddr3_fast", bankbits=1, nports=2, timing=T_FULL,
                                     ctrl=dict(cmd_buffer_depth=2, read_time=4, write_time=4)), True, 40, 60, "qt"),
    "fair_sdr_2b_2p_d2_buffered": (dict(phy="sdr_fast", bankbits=1, nports=2, timing=T_MIN,
                                        ctrl=dict(cmd_buffer_depth=2, cmd_buffer_buffered=True, read_time=4, write_time=4)), True, 0, 44, "t"),
    "adversarial_sdr_2b_2p_d2": (dict(phy="sdr_fast", bankbits=1, nports=2, timing=T_MIN,
                                      ctrl=dict(cmd_buffer_depth=2, read_time=4, write_time=4)), False, 30, 40, "qt"),
    "fair_ddr3_2b_2p_d2_rt8": (dict(phy="ddr3_fast", bankbits=1, nports=2, timing=T_MIN,
                                    ctrl=dict(cmd_buffer_depth=2, read_time=8, write_time=4)), True, 0, 64, "t"),
    "fair_sdr_2b_3p_d2": (dict(phy="sdr_fast", bankbits=1, nports=3, timing=T_MIN,
                               ctrl=dict(cmd_buffer_depth=2, read_time=4, write_time=4)), True, 0, 60, "t"),
    "fair_sdr_2b_2p_d4_noap_full": (dict(phy="sdr_fast", bankbits=1, nports=2, timing=T_FULL,
                                         ctrl=dict(cmd_buffer_depth=4, read_time=4, write_time=4, with_auto_precharge=False)), True, 0, 70, "t"),
    "fair_sdr_4b_2p_d2": (dict(phy="sdr_fast", bankbits=2, nports=2, timing=T_SMALL,
                               ctrl=dict(cmd_buffer_depth=2, read_time=4, write_time=4)), True, 0, 50, "t"),
}
STROBE_RE = "data_strobe_without_an_accepted_command"
BENCHES = {n: partial(corebench.core_bench, n, c[0], None, True, partial(_extra, fair=c[1])) for n, c in CONFIGS.items()}
# the strobe-ownership monitors count per port (SAT-hard at depth, like C01's): they run on their own shallow copy of two benches
STROBE_BENCHES = {"strobes_fair_sdr_2b_2p_d1": "fair_sdr_2b_2p_d1", "strobes_adversarial_sdr_2b_2p_d2": "adversarial_sdr_2b_2p_d2",
                  "strobes_adversarial_sdr_2b_2p_d2_buffered": "fair_sdr_2b_2p_d2_buffered"}
for _a, _n in STROBE_BENCHES.items():
    BENCHES[_a] = partial(corebench.core_bench, _a, CONFIGS[_n][0], None, True,
                          partial(_extra, fair=CONFIGS[_n][1] and "adversarial" not in _a))
for _n in ("fair_sdr_2b_2p_d2_rt4", "fair_ddr3h_2b_2p_d2_tccd2"):
    BENCHES["calibrate_" + _n] = partial(corebench.core_bench, "calibrate_" + _n, CONFIGS[_n][0], None, True,
                                         partial(_extra, fair=True, calibrate=True))


def run(ctx):
    ctx.assume("every port holds its command until accepted (master contract); otherwise ports are adversarial free inputs")
    ctx.assume("'fair' benches: while port 0 requests a bank the other ports do not address that bank (the crossbar's per-bank "
               "arbitration lock-out is the subject of the 'adversarial' bench)")
    ctx.assume("bounds are the closed forms of bounds(configuration); B_req and B_head are below the BMC depth, B_acc/B_data are "
               "generous and exceed it (their monitors can only catch a hang whose onset is early; stated, not hidden)")
    ctx.assume("small read_time/write_time (4..8) and command buffers (2..4); default 32/16 timers scale by the same formula")
    for n, (c, fair, kq, kt, tiers) in CONFIGS.items():
        if ctx.only and not ctx.only.search(n):
            continue
        if ctx.tier == "quick" and "q" in tiers:
            ctx.add(n, kq, timeout=1500, skip_bads=STROBE_RE)
        elif ctx.tier == "thorough":
            ctx.add(n, kq or 40, timeout=1200, skip_bads=STROBE_RE)      # thorough = more configurations at the quick depth
    for a, n in STROBE_BENCHES.items():
        if ctx.only and not ctx.only.search(a):
            continue
        ports = CONFIGS[n][0]["nports"]
        ctx.add(a, 22 if ctx.tier == "quick" else 28, timeout=900, min_K=16, first_chunk=10, chunk=1, cover_required=False,
                bads=["p%d_data_strobe_without_an_accepted_command_of_this_port" % i for i in range(ports)])
    ctx.run()
    for bn, r in ctx.bench_records.items():
        try:
            r["bounds"] = bounds_of(bn)
        except Exception:
            pass


def bounds_of(bn):
    c = CONFIGS[STROBE_BENCHES.get(bn, bn)][0]
    from vlib import cfg
    core = cfg.make_core(**c)
    return bounds(core.timing_settings, core.phy_settings, core.ctrl_settings, 2**core.geom_settings.bankbits, len(core.ports))
