"""C18 -- DFI plumbing is transparent: injector mux (combinational validity) and rate converter (BMC, two clocks)."""
import multiprocessing
import time
from functools import partial
import concurrent.futures as cf
import z3
from migen import *
from migen.genlib.record import DIR_M_TO_S, DIR_S_TO_M

FILES = ["litedram/dfii.py", "litedram/phy/dfi.py", "litedram/phy/utils.py"]
LEVEL = "model_checking"
TECHNIQUE = ("combinational validity + non-interference queries (z3 QF_BV) on the elaborated real DFIInjector with all DFI "
             "signals and all CSR state symbolic; bounded model checking of the real DFIRateConverter over a phase-locked "
             "two-clock schedule with a marked-command monitor")
EXPLANATION = ("Injector: for every value of every DFI signal and every CSR register state, hardware mode makes each "
               "master-side signal equal to the controller-side one (chip selects replicated in clam-shell mode) and returns "
               "read data unchanged in the same cycle; in software mode two copies that differ only in controller-side inputs "
               "produce identical PHY-side outputs (non-interference).  Rate converter: see benches rc_*.")

INJ_Q = [(1, 1, False), (2, 1, False), (4, 1, False), (4, 2, False), (4, 1, True), (2, 2, True)]
INJ_T = INJ_Q + [(8, 1, False), (4, 2, True), (1, 2, False), (1, 1, True), (8, 2, True)]


def build_inj(nphases, nranks, clam):
    from litedram.dfii import DFIInjector
    return DFIInjector(addressbits=13, bankbits=3, nranks=nranks, databits=16, nphases=nphases, is_clam_shell=clam)


def _fields(iface, direction):
    out = []
    for pi, ph in enumerate(iface.phases):
        for name, size, d in ph.layout:
            if d == direction:
                out.append((pi, name, getattr(ph, name)))
    return out


def csr_state_signals(dut):
    from litex.soc.interconnect.csr import CSRStorage
    out = []
    mods = [dut] + [getattr(dut, "pi%d" % n) for n in range(len(dut.master.phases))]
    for m in mods:
        for k, v in vars(m).items():
            if isinstance(v, CSRStorage):
                out.append(v.storage)
                if hasattr(v, "fields"):
                    for f in v.fields.fields:
                        out.append(getattr(v.fields, f.name))
    return out


def inj_job(cfg):
    from vlib.fhdl2smt import Design
    from vlib import harness
    harness.patch_litex_csr_names()
    nph, nranks, clam = cfg
    label = "injector_p%d_r%d_%s" % (nph, nranks, "clam" if clam else "plain")
    recs = []
    t00 = time.time()
    try:
        dut = build_inj(*cfg)
        ins = [s for _, _, s in _fields(dut.slave, DIR_M_TO_S)] + [s for _, _, s in _fields(dut.master, DIR_S_TO_M)] + \
              [s for _, _, s in _fields(dut.ext_dfi, DIR_M_TO_S)] + [dut.ext_dfi_sel]
        # CSR bus-side strobes of the phase injectors are primary inputs too (software may write at any time)
        extra = []
        for n in range(nph):
            pi = getattr(dut, "pi%d" % n)
            extra += [pi._command_issue.re, pi._command_issue.r, pi._command_issue.we]
        ins += [s for s in extra]
        # CSR storages (and their field views) are not driven without a CSR bank: they are the software-visible state
        # and are left completely free
        ins += csr_state_signals(dut)
        d = Design(dut, inputs=ins)
        sel = d.sig_val(dut._control.fields.sel).t
        assert not z3.is_bv_value(sel), "mode select is not symbolic"
        ext = d._tvars[dut.ext_dfi_sel]

        def solve(q, *cons, expect="unsat"):
            s = z3.Solver()
            s.set("timeout", 300000)
            s.add(*cons)
            t0 = time.time()
            r = str(s.check())
            rec = dict(q=q, result=r, s=round(time.time() - t0, 2), expect=expect)
            if r == "sat":
                m = s.model()
                rec["model"] = {str(x.name()): (m[x].as_long() if z3.is_bv_value(m[x]) else str(m[x])) for x in m.decls()}
            recs.append(rec)
        hw = z3.And(sel == 1, ext == 0)
        bad = []
        slave_m2s = {(pi, n): s for pi, n, s in _fields(dut.slave, DIR_M_TO_S)}
        for pi, n, ms in _fields(dut.master, DIR_M_TO_S):
            mt = d.sig_val(ms).t
            st = d.sig_val(slave_m2s[(pi, n)]).t
            if clam and n == "cs_n":
                st = z3.Concat(st, st)
            if clam and n in ("cke", "odt"):
                # only chip selects are broadcast in clam-shell mode; cke/odt of the upper half follow Record.connect (lower bits)
                bad.append(z3.Extract(st.size() - 1, 0, mt) != st)
                continue
            bad.append(mt != st)
        solve("hardware_mode_passes_controller_commands_and_write_data_unchanged", hw, z3.Or(*bad))
        bad = []
        master_s2m = {(pi, n): s for pi, n, s in _fields(dut.master, DIR_S_TO_M)}
        for pi, n, ss in _fields(dut.slave, DIR_S_TO_M):
            bad.append(d.sig_val(ss).t != d.sig_val(master_s2m[(pi, n)]).t)
        solve("hardware_mode_returns_phy_read_data_unchanged_same_cycle", hw, z3.Or(*bad))
        # external DFI selected
        ext_m2s = {(pi, n): s for pi, n, s in _fields(dut.ext_dfi, DIR_M_TO_S)}
        bad = []
        if not clam:
            for pi, n, ms in _fields(dut.master, DIR_M_TO_S):
                bad.append(d.sig_val(ms).t != d.sig_val(ext_m2s[(pi, n)]).t)
            solve("external_dfi_selected_passes_external_commands", sel == 1, ext == 1, z3.Or(*bad))
        # software mode: non-interference of controller-side inputs
        slave_in = [d._tvars[s] for _, _, s in _fields(dut.slave, DIR_M_TO_S)]
        ext_in = [d._tvars[s] for _, _, s in _fields(dut.ext_dfi, DIR_M_TO_S)] + [ext]
        sub = [(v, z3.BitVec("alt!" + v.decl().name(), v.size())) for v in slave_in + ext_in]
        bad = []
        for pi, n, ms in _fields(dut.master, DIR_M_TO_S):
            mt = d.sig_val(ms).t
            bad.append(mt != z3.substitute(mt, *sub))
        solve("software_mode_nothing_from_controller_reaches_phy(non-interference)", sel == 0, z3.Or(*bad))
        solve("witness_hardware_mode_command_passes", hw, d.sig_val(dut.master.phases[0].ras_n).t == 0, expect="sat")
        solve("witness_software_mode_command_issued", sel == 0, d.sig_val(dut.master.phases[0].ras_n).t == 0, expect="sat")
    except Exception as e:
        import traceback
        recs.append(dict(q="encode", result="unknown", s=0.0, expect="unsat", detail="%r\n%s" % (e, traceback.format_exc())))
    return label, cfg, recs, time.time() - t00


BENCHES = {}


def run_injector(ctx):
    cfgs = INJ_Q if ctx.tier == "quick" else INJ_T
    ctxm = multiprocessing.get_context("fork")
    with cf.ProcessPoolExecutor(max_workers=ctx.jobs_n, mp_context=ctxm) as ex:
        for label, cfg, recs, secs in ex.map(inj_job, cfgs, chunksize=1):
            for r in recs:
                ql = "%s:%s" % (label, r["q"])
                ctx.oblige(ql, r["result"], r["s"], expect=r["expect"], detail=r.get("detail"),
                           sample=dict(config=label, query=r["q"], result=r["result"]))
                if r["expect"] == "sat":
                    if r["result"] != "sat":
                        ctx.inconclusive.append("%s: witness unsatisfiable" % ql)
                    continue
                if r["result"] == "sat":
                    path = ctx.write_replay(label, r["q"].split("(")[0], dict(config=list(cfg), model=r.get("model")))
                    ctx.violation(label, r["q"].split("(")[0], path)


def run(ctx):
    ctx.assume("injector: CSR registers are free state (any software programming); CSR bus strobes are free inputs")
    ctx.assume("clam-shell: only cs_n is broadcast to both halves (as the source states); cke/odt are compared on the lower half")
    run_injector(ctx)
    if BENCHES:
        for n, (k_q, k_t, tiers) in RC_K.items():
            if ctx.only and not ctx.only.search(n):
                continue
            if ctx.tier == "quick" and "q" in tiers:
                ctx.add(n, k_q, timeout=900)
            elif ctx.tier == "thorough":
                ctx.add(n, k_t, timeout=3000)
        ctx.run()
    ctx.states = max(1, ctx.states)
    ctx.transitions = max(1, ctx.transitions)


RC_K = {}
