"""Bench builders around the real LiteDRAM core (controller + crossbar + native ports)."""
import collections

from migen import *

from . import cfg, bmc, monitors
from .fhdl2smt import _all_assign_targets


def local_regs(module):
    """registers assigned by the module's own sync statements (not its submodules)"""
    r = set()
    for cd, stmts in module._fragment.sync.items():
        _all_assign_targets(stmts, r)
    return r


def port_inputs(ports, prefix="p", with_rdata_ready=True):
    inputs = collections.OrderedDict()
    for i, p in enumerate(ports):
        n = "%s%d_" % (prefix, i)
        inputs[n + "cmd_valid"] = p.cmd.valid
        inputs[n + "cmd_we"] = p.cmd.we
        inputs[n + "cmd_addr"] = p.cmd.addr
        inputs[n + "wdata_valid"] = p.wdata.valid
        inputs[n + "wdata_data"] = p.wdata.data
        inputs[n + "wdata_we"] = p.wdata.we
        if with_rdata_ready:
            inputs[n + "rdata_ready"] = p.rdata.ready
    return inputs


def dfi_read_inputs(dfi):
    inputs = collections.OrderedDict()
    for i, ph in enumerate(dfi.phases):
        inputs["dfi_p%d_rddata" % i] = ph.rddata
        inputs["dfi_p%d_rddata_valid" % i] = ph.rddata_valid
    return inputs


def refresh_widening(core):
    """the free-running refresh timer (and postponer) may start anywhere in its range: every such
    state is reached from reset by leaving the ports idle.  Returns (free_init, init_assume)."""
    free, assume = collections.OrderedDict(), []
    refresher = core.controller.refresher
    timer = refresher.timer
    (count,) = [s for s in local_regs(timer)]
    free["refresh_timer_count"] = count
    assume.append(count <= count.reset.value)
    post = refresher.postponer
    regs = sorted(local_regs(post), key=lambda s: s.duid)
    pc = [s for s in regs if len(s) > 1 or s.reset.value != 0]
    # postponer: (req_o, count); count has reset postponing-1
    for s in regs:
        if s is not post.req_o and s.reset.value > 0:
            free["refresh_postponer_count"] = s
            assume.append(s <= s.reset.value)
    # refresh_postponing > 1: RefreshSequencer.count resets to postponing-1, so the executer free-runs postponing-1 dummy sequences
    # right after reset (nothing reaches the DFI: cmd.valid is 0).  A timer that is about to fire belongs to a state reached by
    # idling, long after those dummy runs: there the sequencer count is 0 and the executer is idle.
    seq = getattr(refresher, "sequencer", None)
    if seq is not None:
        for sq in sorted(local_regs(seq), key=lambda x: x.duid):
            if sq.reset.value != 0:
                free["refresh_sequencer_count"] = sq
                assume.append(sq == 0)
    # the ZQCS timer (DDR3/DDR4 timings) is free-running in the same way: it counts down while no calibration is executing
    zt = getattr(refresher, "zqcs_timer", None)
    if zt is not None:
        (zc,) = [s for s in local_regs(zt)]
        free["zqcs_timer_count"] = zc
        assume.append(zc <= zc.reset.value)
    return free, assume


def core_bench(name, core_kwargs, req=None, with_contract=False, extra=None, info=None, widen_refresh=True,
               data_inputs=True):
    """real core + DFIMonitor.  extra(core, top, mon, bench_kwargs) may add monitors."""
    core = cfg.make_core(**core_kwargs)
    ps, gs = core.phy_settings, core.geom_settings

    class Top(Module):
        pass
    top = Top()
    top.submodules.core = core
    mon = monitors.DFIMonitor(core.dfi, nranks=ps.nranks, bankbits=gs.bankbits, rowbits=gs.rowbits,
                              rdphase=ps.rdphase, wrphase=ps.wrphase, req=req)
    top.submodules.mon = mon
    inputs = port_inputs(core.ports)
    inputs.update(dfi_read_inputs(core.dfi))
    kw = dict(inputs=inputs, consts={}, free_init={}, init_assume=[], assumes={}, bads=dict(mon.bads), covers={})
    if widen_refresh and core.ctrl_settings.with_refresh:
        fi, ia = refresh_widening(core)
        kw["free_init"].update(fi)
        kw["init_assume"] += ia
    if with_contract:
        for i, p in enumerate(core.ports):
            c = monitors.StreamContract(p.cmd.valid, p.cmd.ready, [p.cmd.we, p.cmd.addr])
            top.submodules += c
            kw["assumes"]["p%d_cmd_held" % i] = c.ok
    if extra:
        extra(core, top, mon, kw)
    b = bmc.Bench(name, top, info=dict(info or {}, core=_jsonable(core_kwargs), req=req), **kw)
    b.core, b.mon = core, mon
    b.watch = collections.OrderedDict()
    for i, ph in enumerate(core.dfi.phases):
        for n in ["cs_n", "ras_n", "cas_n", "we_n", "bank", "address"]:
            b.watch["p%d_%s" % (i, n)] = getattr(ph, n)
    return b


def _jsonable(x):
    if isinstance(x, dict):
        return {str(k): _jsonable(v) for k, v in x.items()}
    if isinstance(x, (list, tuple)):
        return [_jsonable(v) for v in x]
    if isinstance(x, (int, float, str, bool)) or x is None:
        return x
    return repr(x)
