"""C08 -- clock-domain-crossing ports preserve commands, data and order."""
from functools import partial
import re
from migen import *
from litedram.common import LiteDRAMNativePort
from vlib import bmc, monitors
from checks.c12 import _bad_adder

FILES = ["litedram/frontend/adapter.py", "litedram/core/crossbar.py"]
LEVEL = "model_checking"
TECHNIQUE = ("bounded model checking (z3 QF_BV) of the elaborated real LiteDRAMNativePortCDC (LiteX ClockDomainCrossing / migen "
             "AsyncFIFO, Gray counters, MultiReg synchronisers lowered to FHDL) where WHICH clock domain ticks in each step is a "
             "solver variable; one marked item per stream followed by position; replay on migen's Evaluator with the same schedule")
EXPLANATION = ("The user and controller clocks are not given periods: in every step the solver chooses whether the user domain, "
               "the sys domain or both have a rising edge (with a fairness bound), which covers every frequency ratio up to the "
               "bound, every phase and every drift inside the window.  For the cmd, wdata and rdata streams a marked item (chosen by "
               "the solver when it is pushed) must be popped at its position with its payload tag, no item may be popped from an "
               "empty stream, and the read-data FIFO -- which the real crossbar feeds with pulses that do not wait for ready -- must "
               "not be offered a word it cannot take.")


class XMarker(Module):
    """marked-item tracker clocked by the always-ticking monitor domain; push/pop are qualified with the tick of their domain"""
    def __init__(self, push, pop, nbits=6):
        self.mark = Signal()
        self.marked = Signal()
        self.done = Signal()
        self.mark_now = Signal()
        self.mine = Signal()
        self.level = level = Signal(nbits)
        ahead = Signal(nbits)
        self.comb += [self.mark_now.eq(push & self.mark & ~self.marked),
                      self.mine.eq(self.marked & ~self.done & pop & (ahead == 0))]
        self.sync.mon += [
            level.eq(level + push - pop),
            If(self.mark_now, self.marked.eq(1), ahead.eq(level - pop)),
            If(self.marked & ~self.done & pop, If(ahead == 0, self.done.eq(1)).Else(ahead.eq(ahead - 1))),
        ]
        self.underflow = Signal()
        self.comb += self.underflow.eq(pop & (level == 0))
        self.at_head = Signal()
        self.comb += self.at_head.eq(self.marked & ~self.done & (ahead == 0))


def cdc_bench(name, cmd_depth=4, wdata_depth=4, rdata_depth=4, fairness=3, aw=4, dw=8, bounded_reads=True, wr_contract=False):
    from litedram.frontend.adapter import LiteDRAMNativePortCDC
    pu = LiteDRAMNativePort("both", aw, dw, clock_domain="user")
    pc = LiteDRAMNativePort("both", aw, dw, clock_domain="sys")

    class Top(Module):
        pass
    top = Top()
    top.submodules.dut = LiteDRAMNativePortCDC(pu, pc, cmd_depth=cmd_depth, wdata_depth=wdata_depth, rdata_depth=rdata_depth)
    tu = Signal(name_override="tick_user")
    ts = Signal(name_override="tick_sys")
    inputs = {"tick_user": tu, "tick_sys": ts}
    user_in = {"u_cmd_valid": pu.cmd.valid, "u_cmd_we": pu.cmd.we, "u_cmd_addr": pu.cmd.addr, "u_wdata_valid": pu.wdata.valid,
               "u_wdata_data": pu.wdata.data, "u_wdata_we": pu.wdata.we, "u_rdata_ready": pu.rdata.ready}
    sys_in = {"c_cmd_ready": pc.cmd.ready, "c_wdata_ready": pc.wdata.ready, "c_rdata_valid": pc.rdata.valid, "c_rdata_data": pc.rdata.data}
    inputs.update(user_in)
    inputs.update(sys_in)
    assumes = {}
    bads = {}
    bad = _bad_adder(top, bads)

    def asm(n, e):
        s = Signal(name_override="asm_" + n)
        top.comb += s.eq(e)
        assumes[n] = s
    # synchronous inputs: a domain's inputs only change at that domain's clock edges
    for dom, tick, sigs in (("user", tu, user_in), ("sys", ts, sys_in)):
        ptick = Signal(reset=1)
        top.sync.mon += ptick.eq(tick)
        same = []
        for n, s in sigs.items():
            p = Signal(len(s))
            top.sync.mon += p.eq(s)
            same.append(p == s)
        asm("%s_inputs_change_only_at_%s_edges" % (dom, dom), ptick | monitors.all_(same))
    # stream contracts of the producers (evaluated at their own edges)
    def held(valid, ready, payload, tick, n):
        pv = Signal()
        pl = [Signal(len(x)) for x in payload]
        top.sync.mon += If(tick, pv.eq(valid & ~ready), *[q.eq(x) for q, x in zip(pl, payload)])
        asm(n, ~pv | (valid & monitors.all_([q == x for q, x in zip(pl, payload)])))
    held(pu.cmd.valid, pu.cmd.ready, [pu.cmd.we, pu.cmd.addr], tu, "user_cmd_held_until_accepted")
    held(pu.wdata.valid, pu.wdata.ready, [pu.wdata.data, pu.wdata.we], tu, "user_wdata_held_until_accepted")
    if not bounded_reads:
        # (the overflow scenario of the known finding is shown with a user that never stalls; everywhere else rdata.ready is free:
        #  "any back-pressure")
        asm("user_always_accepts_read_data", pu.rdata.ready)
    # events
    # the watched payload bit of each stream is a symbolic constant over the WHOLE payload (every address, data and enable bit)
    consts = {}

    def tagbit(sname, vec_in, vec_out):
        n = len(vec_in)
        sel = Signal(max=max(n, 2), name_override="TAGBIT_" + sname)
        consts["TAGBIT_" + sname] = sel
        asm("tagbit_%s_in_range" % sname, sel < n)
        return Array([vec_in[i] for i in range(n)])[sel], Array([vec_out[i] for i in range(n)])[sel]
    ci, co = tagbit("cmd", Cat(pu.cmd.addr, pu.cmd.we), Cat(pc.cmd.addr, pc.cmd.we))
    wi, wo = tagbit("wdata", Cat(pu.wdata.data, pu.wdata.we), Cat(pc.wdata.data, pc.wdata.we))
    ri, ro = tagbit("rdata", pc.rdata.data, pu.rdata.data)
    ev = {
        "cmd": (pu.cmd.valid & pu.cmd.ready & tu, pc.cmd.valid & pc.cmd.ready & ts, ci, co),
        "wdata": (pu.wdata.valid & pu.wdata.ready & tu, pc.wdata.valid & pc.wdata.ready & ts, wi, wo),
        "rdata": (pc.rdata.valid & pc.rdata.ready & ts, pu.rdata.valid & pu.rdata.ready & tu, ri, ro),
    }
    covers = {}
    markers = {}
    for sname, (push, pop, tag_in, tag_out) in ev.items():
        m = XMarker(push, pop)
        top.submodules += m
        markers[sname] = m
        mk = Signal(name_override="mark_" + sname)
        inputs["mark_" + sname] = mk
        top.comb += m.mark.eq(mk)
        # payload tag: watched payload bit is 1 exactly for the marked item
        src_valid = {"cmd": pu.cmd.valid, "wdata": pu.wdata.valid, "rdata": pc.rdata.valid}[sname]
        asm("%s_tag_marks_the_marked_item" % sname, ~src_valid | (tag_in == (mk & ~m.marked)))
        pm = Signal()
        ptick_dom = tu if sname != "rdata" else ts
        pt = Signal(reset=1)
        top.sync.mon += [pm.eq(mk), pt.eq(ptick_dom)]
        asm("%s_mark_changes_only_at_edges" % sname, pt | (pm == mk))
        bad("%s_item_popped_from_empty_stream_duplicated_or_invented" % sname, m.underflow)
        bad("%s_marked_item_not_delivered_at_its_position" % sname, m.mine & (tag_out != 1))
        bad("%s_marked_item_delivered_at_another_position" % sname, pop & ~m.mine & (tag_out == 1))
        c = Signal()
        top.comb += c.eq(m.mine & (m.level >= 2))
        covers["%s_marked_item_crosses_with_others_in_flight" % sname] = c
    if wr_contract:
        # Towards the crossbar the crossing is itself a master and owes it the master contract: the data of a write is offered no
        # later than the write command.  Scenario: write-only traffic, the marked command and the marked data word are the k-th of
        # their streams and are accepted by the crossing in the same user cycle; the controller side takes write data at once.
        mc, mw = markers["cmd"], markers["wdata"]
        ncmd = Signal(6)
        ndat = Signal(6)
        top.sync.mon += [ncmd.eq(ncmd + ev["cmd"][0]), ndat.eq(ndat + ev["wdata"][0])]
        asm("write_only_traffic", ~pu.cmd.valid | pu.cmd.we)
        asm("marked_command_and_marked_data_are_the_same_ordinal_accepted_in_the_same_user_cycle",
            (mc.mark_now == mw.mark_now) & (~mc.mark_now | (ncmd == ndat)))
        asm("user_hands_over_write_data_no_later_than_the_command_it_belongs_to", ndat + ev["wdata"][0] >= ncmd + ev["cmd"][0])
        asm("controller_side_takes_write_data_at_once", pc.wdata.ready)
        bad("write_command_offered_to_controller_before_its_data_word",
            ts & pc.cmd.valid & mc.at_head & ~(mw.done | (mw.at_head & pc.wdata.valid)))
        cw = Signal()
        top.comb += cw.eq(ts & pc.cmd.valid & mc.at_head & mw.done)
        covers["marked_write_command_offered_after_its_data_was_taken"] = cw
        dbg = {"u_wv": pu.wdata.valid, "u_wr": pu.wdata.ready, "c_wv": pc.wdata.valid, "mc_now": mc.mark_now, "mw_now": mw.mark_now,
               "mc_head": mc.at_head, "mw_head": mw.at_head, "mw_done": mw.done, "ncmd": ncmd, "ndat": ndat, "mc_lvl": mc.level, "mw_lvl": mw.level}
    # the real crossbar does not wait for rdata.ready: read data offered while the CDC cannot take it is lost
    bad("read_data_offered_while_crossing_cannot_take_it_word_lost", pc.rdata.valid & ~pc.rdata.ready)
    # ... and the crossing refuses a word only when it really holds (about) rdata_depth words: occupancy + words the user popped
    # in the last few steps (the write side sees pops a few edges late) is at least the nominal depth
    occ = Signal(8)
    NWIN = 4 * (fairness + 1) + 2     # the write side learns about a pop after <= 3 of its own clock edges (Gray register + 2-FF
                                      # synchroniser), each at most fairness+1 steps apart
    pops = [Signal() for _ in range(NWIN)]
    push_r = pc.rdata.valid & pc.rdata.ready & ts
    pop_r = pu.rdata.valid & pu.rdata.ready & tu
    top.sync.mon += [occ.eq(occ + push_r - pop_r), pops[0].eq(pop_r)] + [pops[i].eq(pops[i - 1]) for i in range(1, NWIN)]
    recent = sum(pops[1:], pops[0]) + pop_r
    bad("crossing_refuses_read_data_although_fewer_than_rdata_depth_words_are_inside", ~pc.rdata.ready & (occ + recent < rdata_depth))
    if bounded_reads:
        # the controller offers a read word only when the crossing can take it (a well-behaved stream producer); what happens
        # when it does not is the subject of the 'unbounded_reads' benches
        asm("controller_offers_read_data_only_when_crossing_ready", ~pc.rdata.valid | pc.rdata.ready)
    # controller returns at most one read word per read command it has accepted
    out_r = Signal(7)
    racc = pc.cmd.valid & pc.cmd.ready & ~pc.cmd.we & ts
    rret = pc.rdata.valid & ts
    top.sync.mon += out_r.eq(out_r + racc - rret)
    asm("controller_returns_read_data_only_for_accepted_reads", ~pc.rdata.valid | (out_r != 0))
    b = bmc.Bench(name, top, inputs, consts=consts, assumes=assumes, bads=bads, covers=covers, schedule="free", fairness=fairness,
                  clock_domains=("sys", "user", "mon"), tick_inputs={"user": tu, "sys": ts}, always_tick=("mon",),
                  info=dict(cmd_depth=cmd_depth, wdata_depth=wdata_depth, rdata_depth=rdata_depth, fairness=fairness))
    b.watch = {}
    if wr_contract:
        b.watch.update(dbg)
    b.watch.update({"tick_u": tu, "tick_s": ts, "u_cv": pu.cmd.valid, "u_cr": pu.cmd.ready, "c_cv": pc.cmd.valid, "c_cr": pc.cmd.ready,
               "c_rv": pc.rdata.valid, "c_rr": pc.rdata.ready, "u_rv": pu.rdata.valid})
    return b


def getport_bench(name, user_dw=16, native_dw=8, fairness=3):
    """real LiteDRAMCrossbar.get_port(clock_domain='user', data_width=...) = width converter (user domain) + CDC in front of the
    crossbar's arbitration, against a controller-interface stub; commands only (no data phases): each accepted user command must
    produce exactly `ratio` bank-side commands with consecutive addresses, in order, for any clock schedule"""
    from litedram.core.crossbar import LiteDRAMCrossbar
    from litedram.core.controller import ControllerSettings
    from litedram.common import LiteDRAMInterface, GeomSettings
    from vlib import cfg
    cs = ControllerSettings(cmd_buffer_depth=4)
    cs.phy = cfg.phy_settings(dfi_databits=native_dw, read_latency=1, write_latency=0)
    cs.geom = GeomSettings(bankbits=1, rowbits=3, colbits=3)
    cs.timing = cfg.timing_settings()
    iface = LiteDRAMInterface(0, cs)

    class Top(Module):
        pass
    top = Top()
    top.submodules.xbar = xbar = LiteDRAMCrossbar(iface)
    pu = xbar.get_port(clock_domain="user", data_width=user_dw)
    ratio = user_dw // native_dw
    tu = Signal(name_override="tick_user")
    ts = Signal(name_override="tick_sys")
    inputs = {"tick_user": tu, "tick_sys": ts, "u_cmd_valid": pu.cmd.valid, "u_cmd_addr": pu.cmd.addr}
    user_in = {"u_cmd_valid": pu.cmd.valid, "u_cmd_addr": pu.cmd.addr}
    sys_in = {}
    banks = [getattr(iface, "bank%d" % i) for i in range(iface.nbanks)]
    for i, b in enumerate(banks):
        inputs["bank%d_ready" % i] = b.ready
        sys_in["bank%d_ready" % i] = b.ready
    top.comb += [pu.cmd.we.eq(0), pu.rdata.ready.eq(1), pu.wdata.valid.eq(0)]
    assumes, bads, covers = {}, {}, {}
    bad = _bad_adder(top, bads)

    def asm(n, e):
        s_ = Signal(name_override="asm_" + n)
        top.comb += s_.eq(e)
        assumes[n] = s_
    for dom, tick, sigs in (("user", tu, user_in), ("sys", ts, sys_in)):
        ptick = Signal(reset=1)
        top.sync.mon += ptick.eq(tick)
        same = []
        for n, sg in sigs.items():
            p_ = Signal(len(sg))
            top.sync.mon += p_.eq(sg)
            same.append(p_ == sg)
        asm("%s_inputs_change_only_at_%s_edges" % (dom, dom), ptick | monitors.all_(same))
    pv = Signal()
    pa = Signal(len(pu.cmd.addr))
    top.sync.mon += If(tu, pv.eq(pu.cmd.valid & ~pu.cmd.ready), pa.eq(pu.cmd.addr))
    asm("user_cmd_held_until_accepted", ~pv | (pu.cmd.valid & (pa == pu.cmd.addr)))
    push = Signal()
    top.comb += push.eq(pu.cmd.valid & pu.cmd.ready & tu)
    # bank-side acceptances (at most one bank accepts per sys edge for a single master)
    bacc = [b.valid & b.ready for b in banks]
    pop = Signal()
    top.comb += pop.eq(monitors.any_(bacc) & ts)
    # full native address of the accepted bank command: rebuild from bank index and row/column address (colbits=3, align 0)
    baddr = Signal(len(pu.cmd.addr) + 1 + 2)
    for i, b in enumerate(banks):
        top.comb += If(bacc[i], baddr.eq(Cat(b.addr[:3], Constant(i, 1), b.addr[3:])))
    W = 7
    level = Signal(W)
    mark = Signal(name_override="mark_cmd")
    inputs["mark_cmd"] = mark
    pm = Signal()
    pt = Signal(reset=1)
    top.sync.mon += [pm.eq(mark), pt.eq(tu)]
    asm("mark_changes_only_at_user_edges", pt | (pm == mark))
    marked = Signal()
    done = Signal(max=ratio + 1)
    ahead = Signal(W)
    mA = Signal(len(pu.cmd.addr))
    mark_now = Signal()
    top.comb += mark_now.eq(push & mark & ~marked)
    mine = Signal()
    top.comb += mine.eq(marked & (done != ratio) & pop & (ahead == 0))
    top.sync.mon += [
        level.eq(level + Mux(push, ratio, 0) - pop),
        If(mark_now, marked.eq(1), ahead.eq(level - pop), mA.eq(pu.cmd.addr)),
        If(marked & (done != ratio) & pop, If(ahead == 0, done.eq(done + 1)).Else(ahead.eq(ahead - 1))),
    ]
    bad("bank_side_command_without_user_command_invented_or_duplicated", pop & (level == 0))
    bad("marked_user_command_not_split_into_consecutive_bank_commands_in_order", mine & (baddr != mA * ratio + done))
    c = Signal()
    top.comb += c.eq(mine & (done == ratio - 1) & (mA != 0))
    covers["marked_wide_command_fully_issued_on_the_bank_side"] = c
    b = bmc.Bench(name, top, inputs, assumes=assumes, bads=bads, covers=covers, schedule="free", fairness=fairness,
                  clock_domains=("sys", "user", "mon"), tick_inputs={"user": tu, "sys": ts}, always_tick=("mon",),
                  info=dict(user_dw=user_dw, native_dw=native_dw, fairness=fairness))
    return b


CONFIGS = {
    "cdc_d4_fair3": (dict(cmd_depth=4, wdata_depth=4, rdata_depth=4, fairness=3), 22, 36, "qt"),
    "wrcontract_cdc_d4_fair3": (dict(cmd_depth=4, wdata_depth=4, rdata_depth=4, fairness=3, wr_contract=True), 16, 24, "qt"),
    "unbounded_reads_cdc_d4_fair3": (dict(cmd_depth=4, wdata_depth=4, rdata_depth=4, fairness=3, bounded_reads=False), 18, 24, "qt"),
    "unbounded_reads_cdc_default_depths_fair3": (dict(cmd_depth=4, wdata_depth=16, rdata_depth=16, fairness=3, bounded_reads=False), 20, 30, "qt"),
    "unbounded_reads_cdc_default_depths_fair6": (dict(cmd_depth=4, wdata_depth=16, rdata_depth=16, fairness=6, bounded_reads=False), 0, 60, "t"),
    "cdc_default_depths_fair3": (dict(cmd_depth=4, wdata_depth=16, rdata_depth=16, fairness=3), 22, 40, "qt"),
    "cdc_d8_fair6": (dict(cmd_depth=8, wdata_depth=8, rdata_depth=8, fairness=6), 0, 40, "t"),
    "cdc_d4_fair8": (dict(cmd_depth=4, wdata_depth=4, rdata_depth=4, fairness=8), 0, 44, "t"),
}
BENCHES = {n: partial(cdc_bench, n, **c[0]) for n, c in CONFIGS.items()}
GP_CONFIGS = {"getport_user_domain_2to1": (dict(user_dw=16, native_dw=8), 20, 30, "qt")}
BENCHES.update({n: partial(getport_bench, n, **c[0]) for n, c in GP_CONFIGS.items()})


def run(ctx):
    ctx.assume("clock schedule: any interleaving of user/sys rising edges with each domain ticking at least once every R+1 steps "
               "(R = fairness: frequency ratios up to (R+1):1 either way, any phase/drift); metastability and intra-bus skew are outside "
               "the model (a MultiReg is two ideal flip-flops; a Gray pointer sampled during a change reads old or new)")
    ctx.assume("producers hold valid/payload until accepted (evaluated at their own clock edges); user side always accepts read "
               "data in the 'unbounded_reads' benches and stalls it freely (rdata.ready free at user edges) in all others; the controller side "
               "returns read data only for reads it accepted, as single-cycle offers that do not wait for ready")
    ctx.assume("reset sequencing of the two domains is not modelled (both start from their reset state)")
    ctx.assume("benches without the 'unbounded_reads' prefix: the controller side offers read data only while the crossing is ready "
               "(otherwise see the known finding on the unbounded benches)")
    ctx.assume("'wrcontract_' bench: write-only traffic, the user hands over each data word no later than its command, the controller "
               "side takes write data at once; the marked command and its data word enter the crossing in the same user cycle")
    for n, (kw, kq, kt, tiers) in CONFIGS.items():
        if ctx.only and not ctx.only.search(n):
            continue
        if n.startswith("wrcontract"):
            if ctx.tier == "quick" or ctx.tier == "thorough":
                K = kq if ctx.tier == "quick" else kt
                ctx.add(n, K, timeout=900, min_K=14, chunk=4, diff_cycles=10, cover_required=False,
                        bads=["write_command_offered_to_controller_before_its_data_word"])
            continue
        if ctx.tier == "quick" and "q" in tiers:
            ctx.add(n, kq, timeout=1200, min_K=16, chunk=6, diff_cycles=10,
                    bads=["read_data_offered_while_crossing_cannot_take_it_word_lost",
                          "crossing_refuses_read_data_although_fewer_than_rdata_depth_words_are_inside"] if n.startswith("unbounded") else None)
        elif ctx.tier == "thorough":
            ctx.add(n, kt, timeout=3000, min_K=kq or 20, chunk=4, diff_cycles=12, cover_required=not n.startswith("unbounded"),
                    bads=["read_data_offered_while_crossing_cannot_take_it_word_lost",
                          "crossing_refuses_read_data_although_fewer_than_rdata_depth_words_are_inside"] if n.startswith("unbounded") else None)
    for n, (kw, kq, kt, tiers) in GP_CONFIGS.items():
        if ctx.only and not ctx.only.search(n):
            continue
        if ctx.tier == "quick" and "q" in tiers:
            ctx.add(n, kq, timeout=900, min_K=14, chunk=3, diff_cycles=10)
        elif ctx.tier == "thorough":
            ctx.add(n, kt, timeout=3000, min_K=16, chunk=3, diff_cycles=12)
    ctx.run()
