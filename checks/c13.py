"""C13 -- DRAM-backed FIFO is lossless, ordered and bounded."""
from functools import partial
import re
from migen import *
from litedram.common import LiteDRAMNativePort
from vlib import bmc, monitors
from checks.c12 import Marker, _bad_adder

FILES = ["litedram/frontend/fifo.py", "litedram/frontend/dma.py"]
LEVEL = "model_checking"
TECHNIQUE = ("bounded model checking (z3 QF_BV) of the elaborated real LiteDRAMFIFO (DMA engines, LiteX FIFOs/converters lowered) "
             "between free producer/consumer and a two-port in-order memory stub that really stores one bit lane; one marked "
             "word (solver-chosen) is followed by position; replay on migen.sim")
EXPLANATION = ("The solver chooses which accepted input word is marked; its watched bit (symbolic lane) is 1, the watched bit of "
               "every other word is 0.  The memory stub serves the write and the read port in global command-acceptance order, with "
               "arbitrary stalls and latencies and the real controller's pulse semantics, and stores the watched bit of every word of "
               "the (tiny) DRAM region, so overwriting an unread word, losing, duplicating or reordering a word all change the bit "
               "seen at some output position.  DRAM depth 4 words makes the pointers wrap inside the window.")


class TwoPortStub(Module):
    """write port + read port, one in-order queue; stores bit B of every word of a small region"""
    def __init__(self, wport, rport, B, nwords, depth=3, min_latency=2, lanes=None):
        self.inputs = {}
        self.bads = {}
        dw = len(wport.wdata.data)
        aw = len(wport.cmd.addr)
        wstall = Signal(name_override="stub_w_cmd_stall")
        rstall = Signal(name_override="stub_r_cmd_stall")
        go = Signal(name_override="stub_resp_go")
        other = Signal(dw, name_override="stub_rdata_other")
        self.inputs.update({"stub_w_cmd_stall": wstall, "stub_r_cmd_stall": rstall, "stub_resp_go": go, "stub_rdata_other": other})
        mem = [Signal(name_override="stub_mem%d" % i) for i in range(nwords)]
        q_we = [Signal() for _ in range(depth)]
        q_a = [Signal(max=max(nwords, 2)) for _ in range(depth)]
        q_age = [Signal(max=min_latency + 1) for _ in range(depth)]
        level = Signal(max=depth + 2)
        free2 = Signal()
        self.comb += free2.eq(level + 2 <= depth)
        # both ports may be accepted in the same cycle (write first in the global order); keep it simple: accept at most one
        # command per cycle, chosen by a free input, which is what an arbiter in front of one memory does
        pick = Signal(name_override="stub_pick_read")
        self.inputs["stub_pick_read"] = pick
        room = Signal()
        self.comb += room.eq(level != depth)
        self.comb += [wport.cmd.ready.eq(room & ~wstall & ~(pick & rport.cmd.valid & ~rstall)),
                      rport.cmd.ready.eq(room & ~rstall & (pick | ~(wport.cmd.valid & ~wstall)))]
        wacc = Signal()
        racc = Signal()
        self.comb += [wacc.eq(wport.cmd.valid & wport.cmd.ready), racc.eq(rport.cmd.valid & rport.cmd.ready)]
        acc = Signal()
        a_in = Signal(max=max(nwords, 2))
        self.comb += [acc.eq(wacc | racc), a_in.eq(Mux(wacc, wport.cmd.addr, rport.cmd.addr))]
        both = Signal()
        self.comb += both.eq(wacc & racc)
        resp = Signal()
        self.comb += resp.eq((level != 0) & (q_age[0] >= min_latency) & go)
        inc = lambda x: Mux(x >= min_latency, x, x + 1)
        for i in range(depth):
            nwe = q_we[i + 1] if i + 1 < depth else Constant(0, 1)
            na = q_a[i + 1] if i + 1 < depth else Constant(0, 1)
            nage = q_age[i + 1] if i + 1 < depth else Constant(0, 1)
            self.sync += [
                If(resp,
                    q_we[i].eq(nwe), q_a[i].eq(na), q_age[i].eq(inc(nage)),
                    If(acc & (level == i + 1), q_we[i].eq(wacc), q_a[i].eq(a_in), q_age[i].eq(1))
                ).Else(
                    q_age[i].eq(inc(q_age[i])),
                    If(acc & (level == i), q_we[i].eq(wacc), q_a[i].eq(a_in), q_age[i].eq(1)))
            ]
        self.sync += level.eq(level + acc - resp)
        resp_w = Signal()
        resp_r = Signal()
        self.comb += [resp_w.eq(resp & q_we[0]), resp_r.eq(resp & ~q_we[0])]
        self.comb += [wport.wdata.ready.eq(resp_w), rport.rdata.valid.eq(resp_r)]
        if lanes is None:
            wbit = Array([wport.wdata.data[i] for i in range(dw)])[B]
            for i in range(nwords):
                self.sync += If(resp_w & (q_a[0] == i) & (wport.wdata.we != 0), mem[i].eq(wbit))
            rbit = Array(mem)[q_a[0]]
            self.comb += rport.rdata.data.eq(Cat(*[Mux(B == i, rbit, other[i]) for i in range(dw)]))
        else:
            # port word wider than the stream word: the watched bit of every narrow word inside the port word is stored
            memk = [[Signal(name_override="stub_mem%d_%d" % (i, k)) for k in range(len(lanes))] for i in range(nwords)]
            for i in range(nwords):
                for k, ln in enumerate(lanes):
                    self.sync += If(resp_w & (q_a[0] == i) & (wport.wdata.we != 0), memk[i][k].eq(wport.wdata.data[ln]))
            bits = []
            for j in range(dw):
                if j in lanes:
                    bits.append(Array([memk[i][lanes.index(j)] for i in range(nwords)])[q_a[0]])
                else:
                    bits.append(other[j])
            self.comb += rport.rdata.data.eq(Cat(*bits))
        bad = _bad_adder(self, self.bads)
        bad("both_ports_accepted_in_one_cycle(stub_error)", both)
        bad("write_data_taken_but_none_offered", resp_w & ~wport.wdata.valid)
        bad("read_data_returned_while_fifo_cannot_take_it", resp_r & ~rport.rdata.ready)
        bad("write_address_outside_fifo_region", wacc & (wport.cmd.addr >= nwords))
        bad("read_address_outside_fifo_region", racc & (rport.cmd.addr >= nwords))
        bad("read_command_on_write_port_or_write_on_read_port", (wacc & ~wport.cmd.we) | (racc & rport.cmd.we))
        self.wacc, self.racc = wacc, racc


def fifo_bench(name, with_bypass=False, nwords=4, data_width=8, port_dw=8, pre=2, post=2, bit=None, core_only=None, dma=None):
    from litedram.frontend import fifo as fifo_mod
    from litedram.frontend.fifo import LiteDRAMFIFO, _LiteDRAMFIFO
    aw = 4
    wp = LiteDRAMNativePort("write", aw, port_dw)
    rp = LiteDRAMNativePort("read", aw, port_dw)

    class Top(Module):
        pass
    top = Top()
    if core_only:
        # the DRAM FIFO proper (pointers, level gating, DMA engines) with small DMA FIFOs
        dut = _LiteDRAMFIFO(data_width=port_dw, base=0, depth=nwords, write_port=wp, read_port=rp,
                            writer_fifo_depth=core_only, reader_fifo_depth=core_only)
    else:
        # LiteDRAMFIFO does not forward the DMA FIFO depths of the inner _LiteDRAMFIFO; `dma` sets them through the inner
        # class's own keyword arguments so that a full DRAM round trip fits in the BMC window (everything else is the real code)
        if dma:
            fifo_mod._LiteDRAMFIFO = partial(_LiteDRAMFIFO, writer_fifo_depth=dma, reader_fifo_depth=dma)
        try:
            dut = LiteDRAMFIFO(data_width=data_width, base=0, depth=nwords * (port_dw // 8), write_port=wp, read_port=rp,
                               with_bypass=with_bypass, pre_fifo_depth=pre, post_fifo_depth=post)
        finally:
            fifo_mod._LiteDRAMFIFO = _LiteDRAMFIFO
    top.submodules.dut = dut
    B = Signal(max=data_width, name_override="BITSEL")
    # position of the watched bit inside the port word: the same lane of the first narrow word (ratio 1 in these benches)
    ratio = port_dw // data_width
    if ratio > 1:
        assert bit is not None, "wide port words need a concrete watched bit"
        top.submodules.stub = stub = TwoPortStub(wp, rp, B, nwords, lanes=[bit + k * data_width for k in range(ratio)])
    else:
        top.submodules.stub = stub = TwoPortStub(wp, rp, B, nwords)
    inputs = {"sink_valid": dut.sink.valid, "sink_data": dut.sink.data, "source_ready": dut.source.ready}
    inputs.update(stub.inputs)
    sacc = Signal()
    beat = Signal()
    top.comb += [sacc.eq(dut.sink.valid & dut.sink.ready), beat.eq(dut.source.valid & dut.source.ready)]
    m = Marker(sacc, beat, depth_bits=7)
    top.submodules += m
    inputs["mark"] = m.mark
    c = monitors.StreamContract(dut.sink.valid, dut.sink.ready, [dut.sink.data])
    top.submodules += c
    inbit = Array([dut.sink.data[i] for i in range(data_width)])[B]
    tag_ok = Signal()
    top.comb += tag_ok.eq(~dut.sink.valid | (inbit == (m.mark & ~m.marked)))
    pm = Signal()
    pv = Signal()
    top.sync += [pm.eq(m.mark), pv.eq(dut.sink.valid & ~dut.sink.ready)]
    markhold = Signal()
    top.comb += markhold.eq(~pv | (m.mark == pm))
    bit_ok = Signal()
    top.comb += bit_ok.eq((B == bit) if bit is not None else (B < data_width))
    bads = dict(stub.bads)
    bad = _bad_adder(top, bads)
    got = Array([dut.source.data[i] for i in range(data_width)])[B]
    bad("output_word_without_input_word", m.underflow)
    bad("marked_word_not_at_its_position_in_the_output_stream", m.mine & (got != 1))
    bad("marked_word_appears_at_another_output_position", beat & ~m.mine & (got == 1))
    inflight = Signal(8)
    top.sync += inflight.eq(inflight + sacc - beat)
    covers = {}
    wcount = Signal(4)
    top.sync += If(stub.wacc, wcount.eq(Mux(wcount == 15, 15, wcount + 1)))
    cv = Signal()
    top.comb += cv.eq(m.mine & (wcount > nwords))
    covers["marked_word_delivered_after_dram_write_pointer_wrapped"] = cv
    cv2 = Signal()
    top.comb += cv2.eq(m.mine & (wcount >= 1))
    covers["marked_word_delivered_after_dram_was_used"] = cv2
    b = bmc.Bench(name, top, inputs, consts={"BITSEL": B},
                  assumes={"sink_held_until_accepted": c.ok, "watched_bit_tags_the_marked_word": tag_ok, "mark_held": markhold,
                           "watched_bit": bit_ok},
                  bads=bads, covers=covers, info=dict(with_bypass=with_bypass, nwords=nwords, data_width=data_width, port_dw=port_dw))
    b.watch = {"sink_v": dut.sink.valid, "sink_r": dut.sink.ready, "sink_d": dut.sink.data, "src_v": dut.source.valid,
               "src_r": dut.source.ready, "src_d": dut.source.data, "w_v": wp.cmd.valid, "w_r": wp.cmd.ready, "w_a": wp.cmd.addr,
               "r_v": rp.cmd.valid, "r_r": rp.cmd.ready, "r_a": rp.cmd.addr, "inflight": inflight}
    return b


CONFIGS = {
    "core_4words_dma2_bit0": (dict(core_only=2, bit=0), 14, 20, "qt"),
    "core_2words_dma2_bit5": (dict(core_only=2, nwords=2, bit=5), 14, 20, "qt"),
    "bypass_2words_dma2_bit0": (dict(with_bypass=True, nwords=2, dma=2, bit=0), 14, 24, "qt"),
    "ratio2_bypass_2words_dma2_bit0": (dict(with_bypass=True, nwords=2, dma=2, bit=0, data_width=8, port_dw=16, pre=4, post=4), 19, 24, "qt"),
    "nobypass_4words_bit0": (dict(with_bypass=False, bit=0), 0, 18, "t"),
    "bypass_4words_bit0": (dict(with_bypass=True, bit=0), 0, 18, "t"),
    "bypass_4words_bit7": (dict(with_bypass=True, bit=7), 0, 18, "t"),
    "nobypass_2words_bit3": (dict(with_bypass=False, nwords=2, bit=3), 0, 18, "t"),
}
BENCHES = {n: partial(fifo_bench, n, **c[0]) for n, c in CONFIGS.items()}


def run(ctx):
    ctx.assume("producer holds valid/data until accepted; consumer ready free; one marked word, watched bit 1 only in that word")
    ctx.assume("memory: write and read port served in global acceptance order by one in-order stub (<=3 queued, latency >= 2, "
               "one command accepted per cycle); DRAM region 2-4 words; data width ratio 1 (ratio2_* benches: 8-bit stream on a 16-bit port, "
               "pre/post FIFO depth 4, the stub stores the watched bit of both narrow words); pre/post FIFO depth 2")
    ctx.assume("full LiteDRAMFIFO benches keep the internal DMA FIFO depth 16 except '*_dma2_*', where the inner _LiteDRAMFIFO is built "
               "with writer/reader_fifo_depth=2 through its own keyword arguments so that a DRAM round trip and the return to bypass "
               "mode fit in the window")
    for n, (kw, kq, kt, tiers) in CONFIGS.items():
        if ctx.only and not ctx.only.search(n):
            continue
        if n.startswith("ratio2_bypass"):
            # known finding (bypass with a stream narrower than the port): only the stream-preservation monitors, from the depth at
            # which it shows
            ctx.add(n, kq if ctx.tier == "quick" else kt, timeout=900, cover_required=False, min_K=14, first_chunk=14, chunk=1,
                    bads=["output_word_without_input_word", "marked_word_not_at_its_position_in_the_output_stream",
                          "marked_word_appears_at_another_output_position"])
            continue
        if ctx.tier == "quick" and "q" in tiers:
            ctx.add(n, kq, timeout=1200, cover_required=False, min_K=min(13, kq - 2), chunk=1)
        elif ctx.tier == "thorough":
            ctx.add(n, kt, timeout=3000, cover_required=False, min_K=min(kq or 12, 12), chunk=1)
    ctx.run()
