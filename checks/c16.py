"""C16 -- cycle counts derived from datasheets are never on the unsafe side."""
import multiprocessing
import time
import concurrent.futures as cf
from fractions import Fraction
import z3

FILES = ["litedram/modules.py"]
LEVEL = "other"
TECHNIQUE = ("symbolic execution of the real SDRAMModule.__init__/ns_to_cycles/ck_to_cycles/ck_ns_to_cycles/margin with the "
             "controller clock frequency a symbolic real (z3 LRA/LIA, ceil as integer bracket with double-rounding slack); "
             "one query per (class, speedgrade, rate, refresh mode, timing); counterexamples replayed on the real class with doubles")
EXPLANATION = ("For every module class of litedram.modules (discovered by introspection) the real constructor is executed with "
               "clk_freq = a symbolic real in the stated interval; every ceil() becomes an integer n with n-1 < x <= n (x perturbed by "
               "8 ulp relative error to cover IEEE double evaluation).  Post-conditions are stated against the class's own datasheet "
               "tables in exact rationals: least-favourable-phase coverage of the ns value, clock-count coverage, tRC vs tRP+tRAS, "
               "and tREFI not longer than the datasheet interval.  SPD images of test/spd_data are decoded by the real SPD classes and "
               "by an independent JEDEC decoder, then checked the same way.")
TOL = Fraction(1, 10**9)

MINS = ["tRP", "tRCD", "tWR", "tRFC", "tWTR", "tFAW", "tCCD", "tRRD", "tRAS", "tZQCS"]
DRAM_MAX_MHZ = {"SDR": 200, "DDR": 200, "LPDDR": 200, "DDR2": 533, "DDR3": 1066, "DDR4": 1600}
NAT_RATES = {"SDR": ["1:1", "1:2"], "DDR": ["1:2"], "LPDDR": ["1:2"], "DDR2": ["1:2"], "DDR3": ["1:2", "1:4"], "DDR4": ["1:4"]}


def module_classes():
    import inspect
    from litedram import modules
    out = []
    for n, c in inspect.getmembers(modules, inspect.isclass):
        if issubclass(c, modules.SDRAMModule) and hasattr(c, "nbanks") and hasattr(c, "technology_timings") \
                and hasattr(c, "speedgrade_timings") and hasattr(c, "memtype") and c.__module__ == modules.__name__:
            out.append(n)
    return sorted(out)


def freq_range(memtype, sg, nph):
    lo = Fraction(10_000_000 if memtype == "SDR" else 25_000_000)
    mx = DRAM_MAX_MHZ.get(memtype, 1600)
    try:
        mx = min(mx, int(sg) // 2) if sg not in (None, "default") else mx
    except ValueError:
        pass
    if memtype == "SDR":
        hi = Fraction(mx * 10**6)
    else:
        hi = Fraction(mx * 10**6, nph)
    return lo, max(hi, lo * 2)


def check_module(cls, label, rate, sg, frm, f_lo, f_hi, recs, cls_factory=None, table_override=None):
    """run the real constructor symbolically and discharge the post-conditions"""
    from litedram import modules
    from vlib import pysym, datasheet
    nph = int(rate.split(":")[1])
    with pysym.symbolic_run(modules) as ctx:
        m = cls(pysym.SymReal([0, 1]), rate, speedgrade=sg, fine_refresh_mode=frm)
    ts = m.timing_settings
    f = ctx.f
    base = list(ctx.constraints) + [f >= z3.RealVal(str(f_lo)), f <= z3.RealVal(str(f_hi))]
    tb = table_override or datasheet.table(cls, sg, frm)
    R = nph
    G = z3.RealVal(10**9)

    def N(name):
        v = getattr(ts, name)
        if v is None:
            return None
        return v.t if isinstance(v, pysym.SymInt) else z3.IntVal(int(v))

    def solve(q, *cons, expect="unsat", info=None):
        s = z3.Solver()
        s.set("timeout", 60000)
        s.add(*base)
        s.add(*cons)
        t0 = time.time()
        r = str(s.check())
        rec = dict(bench=label, q=q, result=r, s=round(time.time() - t0, 3), expect=expect, rate=rate, sg=sg, frm=frm, info=info)
        if r == "sat":
            mdl = s.model()
            fv = mdl.eval(f, model_completion=True)
            rec["f"] = str(fv.as_fraction()) if hasattr(fv, "as_fraction") else str(fv)
        recs.append(rec)
        return r
    solve("witness_frequency_interval_nonempty", expect="sat")
    entries = {n: tb.get(n) for n in MINS}
    if tb.get("tRAS") is not None:
        entries["tRC"] = (tb["tRP"][0] + tb["tRAS"][0], tb["tRP"][1] + tb["tRAS"][1])
    for name, e in entries.items():
        n = N(name)
        if e is None or n is None:
            if (e is None) != (n is None) and not (e is not None and e == (0, 0)):
                recs.append(dict(bench=label, q="%s_present_iff_in_datasheet" % name, result="sat", s=0.0, expect="unsat",
                                 rate=rate, sg=sg, frm=frm, info="table=%r settings=%r" % (e, getattr(ts, name))))
            continue
        ck, ns = e
        nr = z3.ToReal(n)
        if ns > 0:
            # least favourable phases: the two commands are (N-1)*R + 1 DRAM clocks apart = (N - 1 + 1/R) controller periods
            solve("%s_covers_ns_at_worst_phases" % name,
                  (nr - 1 + z3.RealVal(str(Fraction(1, R)))) * G < z3.RealVal(str(ns * (1 - TOL))) * f,
                  info="ns=%s" % ns)
        if ck > 0:
            solve("%s_spans_datasheet_clock_count" % name, n * R < ck, info="ck=%d" % ck)
    # refresh interval
    e = tb.get("tREFI")
    n = N("tREFI")
    if e is not None and n is not None:
        ck, ns = e
        nr = z3.ToReal(n)
        solve("tREFI_within_one_cycle_of_datasheet_interval", (nr - 1) * G >= z3.RealVal(str(ns * (1 + TOL))) * f, info="ns=%s" % ns)
        solve("tREFI_cycles_exceed_datasheet_interval", nr * G > z3.RealVal(str(ns * (1 + TOL))) * f, info="ns=%s" % ns)
    return m


def replay_violation(clsname, rec, spd=None):
    """re-run the REAL class (unpatched module namespace, doubles) at the model's frequency and re-check in exact rationals"""
    from litedram import modules
    from vlib import datasheet
    f = float(Fraction(rec["f"]))
    if spd is not None:
        m = modules.SDRAMModule.from_spd_data(spd, f, fine_refresh_mode=rec["frm"])
        cls = type(m)
        tb = datasheet.table(cls, m.speedgrade, rec["frm"])
        rate = m.rate
    else:
        cls = getattr(modules, clsname)
        m = cls(f, rec["rate"], speedgrade=rec["sg"], fine_refresh_mode=rec["frm"])
        tb = datasheet.table(cls, rec["sg"], rec["frm"])
        rate = rec["rate"]
    R = int(rate.split(":")[1])
    ff = Fraction(f)
    period = Fraction(10**9) / ff
    name = rec["q"].split("_")[0]
    ts = m.timing_settings
    n = getattr(ts, name)
    if name == "tRC":
        e = (tb["tRP"][0] + tb["tRAS"][0], tb["tRP"][1] + tb["tRAS"][1])
    else:
        e = tb[name]
    ck, ns = e
    out = dict(clk_freq=f, cycles=n, ck=ck, ns=str(ns), period_ns=float(period))
    if "covers_ns" in rec["q"]:
        out["confirmed"] = (n - 1 + Fraction(1, R)) * period < ns * (1 - TOL)
    elif "spans_datasheet_clock_count" in rec["q"]:
        out["confirmed"] = n * R < ck
    elif "within_one_cycle" in rec["q"]:
        out["confirmed"] = (n - 1) * period >= ns * (1 + TOL)
    elif "exceed_datasheet_interval" in rec["q"]:
        out["confirmed"] = n * period > ns * (1 + TOL)
    else:
        out["confirmed"] = True
    return out


def concrete_fallback(clsname, label, rate, sg, frm, lo, hi, recs, npts=160):
    """the code under test left the fragment the symbolic engine can encode (e.g. a new builtin on the clock period):
    the verdict of this obligation is INCONCLUSIVE; to still surface a plain violation, the replay oracle is run on a
    geometric grid of clock frequencies (this is sampling, labelled as such, and only ever adds replay-confirmed violations)"""
    names = ["%s_covers_ns_at_worst_phases" % n for n in MINS + ["tRC"]] + ["tREFI_cycles_exceed_datasheet_interval"]
    seen = set()
    for i in range(npts):
        f = float(lo) * (float(hi) / float(lo)) ** (i / (npts - 1))
        for q in names:
            if q in seen:
                continue
            rec = dict(bench=label, q=q, result="sat", s=0.0, expect="unsat", rate=rate, sg=sg, frm=frm, f=str(Fraction(f)),
                       info="found by the concrete fallback sweep (symbolic encoding failed)")
            try:
                rp = replay_violation(clsname, rec)
            except Exception:
                continue
            if rp.get("confirmed"):
                rec["replay"] = rp
                recs.append(rec)
                seen.add(q)


def class_job(args):
    clsname, tier = args
    from litedram import modules
    recs = []
    t0 = time.time()
    try:
        cls = getattr(modules, clsname)
        sgs = [None] + [k for k in cls.speedgrade_timings.keys() if k != "default"]
        rates = NAT_RATES.get(cls.memtype, ["1:4"]) if tier == "quick" else ["1:1", "1:2", "1:4"]
        frms = [None] if cls.memtype != "DDR4" else (["1x"] if tier == "quick" else ["1x", "2x", "4x"])
        for sg in sgs:
            for rate in rates:
                for frm in frms:
                    nph = int(rate.split(":")[1])
                    lo, hi = freq_range(cls.memtype, sg, nph)
                    label = "%s/%s/%s/%s" % (clsname, sg, rate, frm)
                    try:
                        check_module(cls, label, rate, sg, frm, lo, hi, recs)
                    except Exception as e:
                        import traceback
                        recs.append(dict(bench=label, q="encode", result="unknown", s=0.0, expect="unsat", rate=rate, sg=sg, frm=frm,
                                         info="%r %s" % (e, traceback.format_exc()[-400:])))
                        concrete_fallback(clsname, label, rate, sg, frm, lo, hi, recs)
        for r in recs:
            if r["result"] == "sat" and r["expect"] == "unsat" and "f" in r:
                try:
                    r["replay"] = replay_violation(clsname, r)
                except Exception as e:
                    r["replay"] = dict(confirmed=False, error=repr(e))
    except Exception as e:
        recs.append(dict(bench=clsname, q="encode", result="unknown", s=0.0, expect="unsat", info=repr(e)))
    return clsname, recs, time.time() - t0


def spd_job(args):
    path, tier = args
    import os
    from litedram import modules
    from vlib import datasheet
    recs = []
    name = os.path.basename(path)
    try:
        data = load_spd_csv(path)
        ref = spd_reference(data)
        base = modules.SDRAMModule.from_spd_data(data, 100e6)
        cls = type(base)
        sg = base.speedgrade
        # the tables the real decoder produced vs the independent JEDEC decode
        tb = datasheet.table(cls, sg, "1x" if cls.memtype == "DDR4" else None)
        if cls.memtype == "DDR4":
            for frm_ in ("2x", "4x"):
                tb["tRFC@" + frm_] = datasheet.table(cls, sg, frm_)["tRFC"]
        for k, v in ref.items():
            got = tb[k][1]
            ok = abs(got - v) <= Fraction(1, 10**6)
            recs.append(dict(bench="spd/" + name, q="spd_%s_matches_independent_decode" % k, result="unsat" if ok else "sat", s=0.0,
                             expect="unsat", info="real=%s reference=%s" % (float(got), float(v)), rate=base.rate, sg=sg, frm=None))
        nph = int(base.rate.split(":")[1])
        lo, hi = freq_range(cls.memtype, sg, nph)
        frms = [None] if cls.memtype != "DDR4" else ["1x", "2x", "4x"]
        for frm in frms:
            check_module(cls, "spd/%s/%s" % (name, frm), base.rate, sg, frm, lo, hi, recs)
        for r in recs:
            if r["result"] == "sat" and r["expect"] == "unsat" and "f" in r:
                try:
                    r["replay"] = replay_violation(None, r, spd=data)
                except Exception as e:
                    r["replay"] = dict(confirmed=False, error=repr(e))
    except Exception as e:
        import traceback
        recs.append(dict(bench="spd/" + name, q="encode", result="unknown", s=0.0, expect="unsat", info="%r %s" % (e, traceback.format_exc()[-500:])))
    return name, recs, 0.0


def load_spd_csv(path):
    import csv
    data = [0] * 512
    with open(path) as f:
        for row in csv.DictReader(f):
            a = row["Byte Number"]
            if len(a.split("-")) == 1:
                data[int(a)] = int(row["Byte Value"], 16)
    return data


def spd_reference(b):
    """independent JEDEC SPD timing decode (DDR3: JESD 21-C annex K; DDR4: annex L) in exact rationals, ns"""
    def s8(x):
        return x - 256 if x & 0x80 else x
    out = {}
    if b[2] == 0x0b:
        ftb = Fraction((b[9] >> 4) & 0xf, b[9] & 0xf) / 1000
        mtb = Fraction(b[10], b[11])
        t = lambda m, fb=0: m * mtb + s8(fb) * ftb
        out["tWR"] = t(b[17])
        out["tRCD"] = t(b[18], b[36])
        out["tRRD"] = t(b[19])
        out["tRP"] = t(b[20], b[37])
        out["tRAS"] = t(((b[21] & 0x0f) << 8) | b[22])
        out["tRFC"] = t((b[25] << 8) | b[24])
        out["tWTR"] = t(b[26])
        out["tFAW"] = t(((b[28] & 0x0f) << 8) | b[29])
    elif b[2] == 0x0c:
        mtb, ftb = Fraction(125, 1000), Fraction(1, 1000)
        t = lambda m, fb=0: m * mtb + s8(fb) * ftb
        out["tRCD"] = t(b[25], b[122])
        out["tRP"] = t(b[26], b[121])
        out["tRAS"] = t(((b[27] & 0x0f) << 8) | b[28])
        out["tRFC"] = t((b[31] << 8) | b[30])
        out["tRFC@2x"] = t((b[33] << 8) | b[32])
        out["tRFC@4x"] = t((b[35] << 8) | b[34])
        out["tFAW"] = t(((b[36] & 0x0f) << 8) | b[37])
        out["tRRD"] = t(b[39], b[118])
        out["tCCD"] = t(b[40], b[117])
        out["tWR"] = t(((b[41] & 0x0f) << 8) | b[42])
        out["tWTR"] = t(((b[43] >> 4) << 8) | b[45])
    return out


BENCHES = {}


def replay_custom(data):
    r = data["rec"]
    rp = replay_violation(data["cls"], r, spd=None)
    print("re-run of the real class with doubles:", rp)
    if rp.get("confirmed"):
        print("VIOLATION property=C16 replay=%s" % data.get("path", "<file>"))
        return 1
    return 0


def run(ctx):
    import glob
    import os
    from vlib import harness
    ctx.assume("controller clock frequency ranges over the stated interval per memory type/speedgrade/rate "
               "(10 or 25 MHz .. maximum DRAM clock / phases); tolerance 1e-9 relative on ns comparisons; doubles modelled as "
               "exact reals with 8 ulp relative slack at every rounding point")
    ctx.assume("quick tier: natural rate(s) per memory type and DDR4 1x refresh; thorough: all of 1:1, 1:2, 1:4 and 1x/2x/4x")
    names = module_classes()
    ctx.extra["module_classes"] = len(names)
    jobs = [(n, ctx.tier) for n in names if not ctx.only or ctx.only.search(n)]
    spds = sorted(glob.glob(os.path.join(harness.REPO, "test", "spd_data", "*")))
    spd_jobs = [(p, ctx.tier) for p in spds if not ctx.only or ctx.only.search(os.path.basename(p))]
    ctx.extra["spd_images"] = len(spd_jobs)
    ctxm = multiprocessing.get_context("fork")
    allrecs = []
    with cf.ProcessPoolExecutor(max_workers=ctx.jobs_n, mp_context=ctxm) as ex:
        for name, recs, secs in ex.map(class_job, jobs, chunksize=1):
            allrecs.append((name, recs))
        for name, recs, secs in ex.map(spd_job, spd_jobs, chunksize=1):
            allrecs.append((None, recs))
    nsample = 0
    for clsname, recs in allrecs:
        for r in recs:
            nsample += 1
            label = "%s:%s" % (r["bench"], r["q"])
            ctx.oblige(label, r["result"], r["s"], expect=r["expect"], detail=r.get("info"),
                       sample=dict(obligation=label, result=r["result"], info=r.get("info")) if nsample % 211 == 1 else None)
            if r["expect"] == "sat":
                if r["result"] != "sat":
                    ctx.inconclusive.append("%s: witness unsatisfiable" % label)
                continue
            if r["result"] == "sat":
                rp = r.get("replay")
                if rp is not None and not rp.get("confirmed"):
                    ctx.inconclusive.append("%s: model does not reproduce on the real class with doubles: %r" % (label, rp))
                    continue
                goal = r["q"]
                kf = ctx.known_finding(r["bench"], goal)
                if kf:
                    if not any(k[0]["id"] == kf["id"] for k in ctx.known_hits):
                        path = ctx.write_replay(r["bench"], goal, dict(cls=clsname, rec=r))
                        ctx.known_hits.append((kf, r["bench"], goal, path))
                    ctx.extra.setdefault("known_finding_instances", 0)
                    ctx.extra["known_finding_instances"] += 1
                    ctx.discharged += 1
                else:
                    path = ctx.write_replay(r["bench"], goal, dict(cls=clsname, rec=r))
                    ctx.violations.append((r["bench"], goal, -1, path))
    ctx.states = max(1, ctx.states)
