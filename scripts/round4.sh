#!/bin/bash
# usage: round4.sh Cnn  -- confirm /tmp/wt4_Cnn/_seed/1 as seeded/Cnn_6, run the quick check against it, remove the worktree
p=$1
python3 /verif/scripts/confirm_seed.py /tmp/wt4_$p 1 ${p}_6 > /tmp/r4_$p.confirm.log 2>&1
echo "confirm rc=$?" >> /tmp/r4_$p.confirm.log
git -C /repo worktree remove --force /tmp/wt4_$p
timeout 1500 /verif/scripts/try_seed.sh /verif/seeded/${p}_6/patch.diff $p --tier quick > /tmp/r4_$p.check.log 2>&1
echo "check rc=$?" >> /tmp/r4_$p.check.log
